package libp2p

// Correspondence driver for property C13 (stream framing).  Runs the real newStream /
// newMetadataStream over a fake network stream that records every Write call and serves reads
// in arbitrary chunks, and (class e2e) the handler epilogue of two real services on loopback.

import (
	"bytes"
	"context"
	"encoding/json"
	"errors"
	"fmt"
	"io"
	"log/slog"
	"math/rand"
	"strings"
	"sync"
	"testing"
	"time"

	"github.com/ethereum/go-ethereum/common"
	"github.com/ethereum/go-ethereum/crypto"
	"github.com/libp2p/go-msgio"
	"github.com/prometheus/client_golang/prometheus"
	discoverypb "github.com/primevprotocol/mev-commit/gen/go/discovery/v1"
	handshakepb "github.com/primevprotocol/mev-commit/gen/go/handshake/v1"
	preconfpb "github.com/primevprotocol/mev-commit/gen/go/preconfirmation/v1"
	streammsgv1 "github.com/primevprotocol/mev-commit/gen/go/streammsg/v1"
	mockkeysigner "github.com/primevprotocol/mev-commit/pkg/keysigner/mock"
	"github.com/primevprotocol/mev-commit/pkg/p2p"
	spb "google.golang.org/genproto/googleapis/rpc/status"
	"google.golang.org/grpc/status"
	"google.golang.org/protobuf/encoding/protowire"
	"google.golang.org/protobuf/proto"
	"google.golang.org/protobuf/reflect/protoreflect"
	"google.golang.org/protobuf/types/known/anypb"
	"google.golang.org/protobuf/types/known/emptypb"
	"google.golang.org/protobuf/types/known/structpb"
	"google.golang.org/protobuf/types/known/wrapperspb"
)

// ---------------------------------------------------------------------------------------------
// fake network stream

type c13Pipe struct {
	writes  [][]byte // one entry per Write call
	data    []byte   // served to Read
	pos     int
	pattern []int // chunk sizes, cycled; at least one positive entry
	pi      int
	carry   int  // rest of the current chunk not yet served (the caller asked for less)
	eofData bool // deliver io.EOF together with the last bytes
}

func (p *c13Pipe) Write(b []byte) (int, error) {
	p.writes = append(p.writes, append([]byte(nil), b...))
	return len(b), nil
}

func (p *c13Pipe) Read(b []byte) (int, error) {
	if p.pos >= len(p.data) {
		return 0, io.EOF
	}
	if len(b) == 0 {
		return 0, nil
	}
	if p.carry == 0 {
		c := 1
		if len(p.pattern) > 0 {
			c = p.pattern[p.pi%len(p.pattern)]
			p.pi++
		}
		if c == 0 {
			return 0, nil // an empty chunk
		}
		p.carry = c
	}
	n := p.carry
	if n > len(b) {
		n = len(b)
	}
	if n > len(p.data)-p.pos {
		n = len(p.data) - p.pos
		p.carry = n
	}
	copy(b, p.data[p.pos:p.pos+n])
	p.pos += n
	p.carry -= n
	if p.eofData && p.pos >= len(p.data) {
		return n, io.EOF
	}
	return n, nil
}

func (p *c13Pipe) Close() error { return nil }
func (p *c13Pipe) Reset() error { return nil }

// ---------------------------------------------------------------------------------------------
// inputs

type c13Any struct {
	Url []byte
	Val []byte
}
type c13Status struct {
	Code    int32
	Msg     []byte
	Details []c13Any
}

// Kind: 0 plain error, 1 error with GRPCStatus() = S, 2 GRPCStatus() = nil, 3 fmt.Errorf("%s: %w") around a status error
type c13Herr struct {
	Kind int
	Text []byte
	S    *c13Status
}

// Kind: 0 WriteMsg (Typ/Wire), 1 WriteHeader (Wire = deterministic Header bytes, NilHdr), 2 WriteError(S), 3 handler error H
type c13WOp struct {
	Kind   int
	Typ    string
	Wire   []byte
	NilHdr bool
	S      *c13Status
	H      *c13Herr
}

// Kind: 0 session, 1 big, 2 e2e, 3 abandoned reads, 4 writes behind a stalled peer, 5 wire-marshal, 6 wire-unmarshal
type c13In struct {
	Kind     int
	Honest   bool
	WOps     []c13WOp
	Stream   []byte // explicit reader input (hostile); nil = what the writes produced
	HasStr   bool
	Pattern  []int
	Pattern2 []int
	ROps     []int // planned read kinds; afterwards ReadMsg until the stream ends
	EOFData  bool
	N        int      // big: inner payload length
	E        *c13Herr // e2e: handler result (nil = handler returns nil)
	Inners   [][]byte // abandon / stalled: BytesValue contents, one message per call
	Reqs     []int    // abandon: per ReadMsg call 0 = runs to completion, 1 = given up before anything arrived
	Calls    []int    // stalled: per WriteMsg call 0 = completes after the peer resumes, 1 = given up
	WM       *c13WMsg // wire-marshal (Kind 5): the message
	WK       int      // wire-unmarshal (Kind 6): message kind; the input bytes are Stream
}

func c13NewMsg(typ string) proto.Message {
	switch typ {
	case "handshake.Req":
		return new(handshakepb.HandshakeReq)
	case "handshake.Resp":
		return new(handshakepb.HandshakeResp)
	case "discovery.PeerList":
		return new(discoverypb.PeerList)
	case "preconf.Bid":
		return new(preconfpb.Bid)
	case "preconf.PreConfirmation":
		return new(preconfpb.PreConfirmation)
	case "streammsg.Header":
		return new(streammsgv1.Header)
	case "rpc.Status":
		return new(spb.Status)
	case "bytes":
		return new(wrapperspb.BytesValue)
	case "badutf8":
		return &handshakepb.HandshakeReq{PeerType: "\xff\xfe", Token: "t"}
	default:
		return new(emptypb.Empty)
	}
}

func c13BuildMsg(op c13WOp) proto.Message {
	m := c13NewMsg(op.Typ)
	if op.Typ != "badutf8" {
		_ = proto.Unmarshal(op.Wire, m)
	}
	return m
}

func c13StatusProto(s *c13Status) *spb.Status {
	p := &spb.Status{Code: s.Code, Message: string(s.Msg)}
	for _, d := range s.Details {
		p.Details = append(p.Details, &anypb.Any{TypeUrl: string(d.Url), Value: append([]byte(nil), d.Val...)})
	}
	return p
}

type c13GrpcErr struct {
	st   *status.Status
	text string
}

func (e *c13GrpcErr) Error() string              { return e.text }
func (e *c13GrpcErr) GRPCStatus() *status.Status { return e.st }

func c13BuildErr(h *c13Herr) error {
	switch h.Kind {
	case 0:
		return errors.New(string(h.Text))
	case 1:
		return &c13GrpcErr{st: status.FromProto(c13StatusProto(h.S)), text: "c13 status error"}
	case 2:
		return &c13GrpcErr{st: nil, text: string(h.Text)}
	default:
		return fmt.Errorf("%s: %w", string(h.Text), &c13GrpcErr{st: status.FromProto(c13StatusProto(h.S)), text: "inner"})
	}
}

// ---------------------------------------------------------------------------------------------
// Coq printers

func c13CoqStatus(s *c13Status) string {
	det := make([]string, 0, len(s.Details))
	for _, d := range s.Details {
		det = append(det, coqRecord("a_url", coqBytes(d.Url), "a_val", coqBytes(d.Val)))
	}
	return coqRecord("st_code", coqZ(int64(s.Code)), "st_msg", coqBytes(s.Msg), "st_details", coqList(det))
}

func c13CoqHerr(h *c13Herr, err error) string {
	switch h.Kind {
	case 0:
		return coqApp("HPlain", coqBytes(h.Text))
	case 1:
		return coqApp("HStatus", c13CoqStatus(h.S))
	case 2:
		return coqApp("HNilStatus", coqBytes(h.Text))
	default:
		return coqApp("HWrapped", c13CoqStatus(h.S), coqStr(err.Error()))
	}
}

type c13RObs struct {
	K    string // data innerbad status oknodata reject malformed header headerbad eof toolarge other panic
	B    []byte `json:",omitempty"`
	Code int32  `json:",omitempty"`
	Det  []c13Any
}

func (o c13RObs) coq() string {
	switch o.K {
	case "data":
		return coqApp("OData", coqBytes(o.B))
	case "innerbad":
		return "OInnerBad"
	case "status":
		det := make([]string, 0, len(o.Det))
		for _, d := range o.Det {
			det = append(det, coqPair(coqBytes(d.Url), coqBytes(d.Val)))
		}
		return coqApp("OStatus", coqZ(int64(o.Code)), coqBytes(o.B), coqList(det))
	case "oknodata":
		return "OOkNoData"
	case "reject":
		return "OReject"
	case "malformed":
		return "OMalformed"
	case "header":
		return coqApp("OHeader", coqBytes(o.B))
	case "headerbad":
		return "OHeaderBad"
	case "eof":
		return "OEOF"
	case "toolarge":
		return "OTooLarge"
	case "panic":
		return "OPanic"
	default:
		return "OOther"
	}
}

func (o c13RObs) final() bool {
	return o.K == "eof" || o.K == "toolarge" || o.K == "other" || o.K == "panic"
}

// ---------------------------------------------------------------------------------------------
// observation of one read

var c13Sentinel = protowire.AppendVarint(protowire.AppendTag(nil, 999999, protowire.VarintType), 1)

func c13Transport(err error) (c13RObs, bool) {
	switch {
	case errors.Is(err, msgio.ErrMsgTooLarge):
		return c13RObs{K: "toolarge"}, true
	case errors.Is(err, io.EOF), errors.Is(err, io.ErrUnexpectedEOF):
		return c13RObs{K: "eof"}, true
	}
	return c13RObs{}, false
}

func c13StatusObs(err error) (c13RObs, bool) {
	gs, ok := err.(interface{ GRPCStatus() *status.Status })
	if !ok || gs.GRPCStatus() == nil {
		return c13RObs{}, false
	}
	p := gs.GRPCStatus().Proto()
	o := c13RObs{K: "status", Code: p.GetCode(), B: []byte(p.GetMessage())}
	for _, d := range p.GetDetails() {
		o.Det = append(o.Det, c13Any{Url: []byte(d.GetTypeUrl()), Val: d.GetValue()})
	}
	return o, true
}

func c13ReadMsgObs(s p2p.Stream) (o c13RObs) {
	defer func() {
		if r := recover(); r != nil {
			o = c13RObs{K: "panic"}
		}
	}()
	m := &emptypb.Empty{}
	m.ProtoReflect().SetUnknown(protoreflect.RawFields(append([]byte(nil), c13Sentinel...)))
	err := s.ReadMsg(context.Background(), m)
	untouched := bytes.Equal(m.ProtoReflect().GetUnknown(), c13Sentinel)
	if err == nil {
		if untouched {
			return c13RObs{K: "oknodata"}
		}
		return c13RObs{K: "data", B: append([]byte{}, m.ProtoReflect().GetUnknown()...)}
	}
	if so, ok := c13StatusObs(err); ok {
		return so
	}
	if to, ok := c13Transport(err); ok {
		return to
	}
	if errors.Is(err, proto.Error) {
		if untouched {
			return c13RObs{K: "malformed"}
		}
		return c13RObs{K: "innerbad"}
	}
	if untouched {
		return c13RObs{K: "reject"}
	}
	return c13RObs{K: "other"}
}

func c13HdrCanon(h p2p.Header) []byte {
	b, err := proto.MarshalOptions{Deterministic: true}.Marshal(&streammsgv1.Header{Header: h})
	if err != nil {
		return []byte("marshal-error")
	}
	if b == nil {
		b = []byte{}
	}
	return b
}

// whether proto.Marshal of the value is reproducible (no map with more than one entry inside)
func c13ValueDet(v *structpb.Value) bool {
	switch k := v.GetKind().(type) {
	case *structpb.Value_StructValue:
		if len(k.StructValue.GetFields()) > 1 {
			return false
		}
		for _, f := range k.StructValue.GetFields() {
			if !c13ValueDet(f) {
				return false
			}
		}
	case *structpb.Value_ListValue:
		for _, f := range k.ListValue.GetValues() {
			if !c13ValueDet(f) {
				return false
			}
		}
	}
	return true
}

// the header as (key, marshalled Value) pairs; ok = false when some Value is not reproducible
func c13HdrEntries(h p2p.Header) (es []c13Any, ok bool) {
	ok = true
	for k, v := range h {
		if v == nil || !c13ValueDet(v) {
			return nil, false
		}
		b, err := proto.Marshal(v)
		if err != nil {
			return nil, false
		}
		es = append(es, c13Any{Url: []byte(k), Val: b})
	}
	return es, ok
}

func c13ReadHdrObs(s p2p.MetadataStream) (o c13RObs) {
	defer func() {
		if r := recover(); r != nil {
			o = c13RObs{K: "panic"}
		}
	}()
	h, err := s.ReadHeader(context.Background())
	if err == nil {
		return c13RObs{K: "header", B: c13HdrCanon(h)}
	}
	if to, ok := c13Transport(err); ok {
		return to
	}
	if errors.Is(err, proto.Error) {
		return c13RObs{K: "headerbad"}
	}
	return c13RObs{K: "other"}
}

// ---------------------------------------------------------------------------------------------
// session

type c13WObs struct {
	K string // ok fail odd
	B []byte `json:",omitempty"`
}

type c13SessObs struct {
	W       []c13WObs
	R       []c13RObs
	ROps    []int
	TypedOK bool
}

func c13Session(e *vfEnv, class string, in c13In) {
	ctx := context.Background()
	wnet := &c13Pipe{}
	wms := newMetadataStream(wnet)
	wst := newStream(wnet, nil, nil)

	type built struct {
		msg   proto.Message
		hdr   p2p.Header
		st    *status.Status
		err   error
		inner []byte
		innOK bool
		canon []byte
		ents  []c13Any
		entOK bool
	}
	bs := make([]built, len(in.WOps))
	wobs := make([]c13WObs, len(in.WOps))
	for i, op := range in.WOps {
		b := &bs[i]
		before := len(wnet.writes)
		var err error
		panicked := false
		func() {
			defer func() {
				if r := recover(); r != nil {
					panicked = true
				}
			}()
			switch op.Kind {
			case 0:
				b.msg = c13BuildMsg(op)
				inner, merr := proto.Marshal(b.msg)
				if merr == nil {
					b.innOK = true
					b.inner = inner
				}
				err = wst.WriteMsg(ctx, b.msg)
			case 1:
				if !op.NilHdr {
					hm := new(streammsgv1.Header)
					_ = proto.Unmarshal(op.Wire, hm)
					b.hdr = hm.Header
					if b.hdr == nil {
						b.hdr = p2p.Header{}
					}
				}
				b.canon = c13HdrCanon(b.hdr)
				b.ents, b.entOK = c13HdrEntries(b.hdr)
				err = wms.WriteHeader(ctx, b.hdr)
			case 2:
				b.st = status.FromProto(c13StatusProto(op.S))
				err = wms.WriteError(ctx, b.st)
			default:
				b.err = c13BuildErr(op.H)
				// the two statements of the handler epilogue in libp2p.go (tied by the extracted
				// call table c13_wrapper_fromerror / c13_wrapper_writeerror)
				retErr, _ := status.FromError(b.err)
				b.st = retErr
				err = wms.WriteError(ctx, retErr)
			}
		}()
		n := len(wnet.writes) - before
		switch {
		case !panicked && err == nil && n == 1:
			wobs[i] = c13WObs{K: "ok", B: wnet.writes[before]}
		case !panicked && err != nil && n == 0:
			wobs[i] = c13WObs{K: "fail"}
		default:
			wobs[i] = c13WObs{K: "odd"}
		}
	}

	var written []byte
	for _, w := range wnet.writes {
		written = append(written, w...)
	}
	streamBytes := written
	if in.HasStr {
		streamBytes = in.Stream
	}

	// pass 1: raw observation
	rnet := &c13Pipe{data: streamBytes, pattern: in.Pattern, eofData: in.EOFData}
	rms := newMetadataStream(rnet)
	rst := newStream(rnet, nil, nil)
	var robs []c13RObs
	var rops []int
	limit := len(streamBytes)/4 + 4
	for i := 0; i < limit; i++ {
		kind := 0
		if i < len(in.ROps) {
			kind = in.ROps[i]
		}
		var o c13RObs
		if kind == 1 {
			o = c13ReadHdrObs(rms)
		} else {
			kind = 0
			o = c13ReadMsgObs(rst)
		}
		rops = append(rops, kind)
		robs = append(robs, o)
		if o.final() {
			break
		}
	}

	// header oracle for every frame body that was written
	type hent struct {
		body  []byte
		ok    bool
		canon []byte
	}
	var hdrs []hent
	fi := 0 // index of the frame a successful write produced
	for _, w := range wobs {
		if w.K != "ok" {
			continue
		}
		wanted := !in.HasStr && fi < len(rops) && rops[fi] == 1
		fi++
		if wanted && len(w.B) >= 4 {
			body := w.B[4:]
			hm := new(streammsgv1.Header)
			if err := proto.Unmarshal(body, hm); err != nil {
				hdrs = append(hdrs, hent{body: body})
			} else {
				hdrs = append(hdrs, hent{body: body, ok: true, canon: c13HdrCanon(hm.Header)})
			}
		}
	}

	// pass 2: the real message types, a different chunking
	typedOK := true
	if in.Honest {
		tnet := &c13Pipe{data: written, pattern: in.Pattern2}
		tms := newMetadataStream(tnet)
		tst := newStream(tnet, nil, nil)
		dests := map[string]proto.Message{} // ONE destination per type, reused across reads without clearing
		func() {
			defer func() {
				if r := recover(); r != nil {
					typedOK = false
				}
			}()
			for i, op := range in.WOps {
				if wobs[i].K != "ok" {
					continue
				}
				b := &bs[i]
				switch op.Kind {
				case 0:
					typ := op.Typ
					if typ == "badutf8" {
						typ = "handshake.Req"
					}
					m2 := dests[typ]
					if m2 == nil {
						m2 = c13NewMsg(typ)
						dests[typ] = m2
					}
					if err := tst.ReadMsg(ctx, m2); err != nil || !proto.Equal(b.msg, m2) {
						typedOK = false
					}
				case 1:
					h2, err := tms.ReadHeader(ctx)
					if err != nil || !proto.Equal(&streammsgv1.Header{Header: b.hdr}, &streammsgv1.Header{Header: h2}) || len(h2) != len(b.hdr) {
						typedOK = false
					}
				default:
					err := tst.ReadMsg(ctx, new(emptypb.Empty))
					if b.st.Proto().GetCode() == 0 {
						if err != nil {
							typedOK = false
						}
					} else {
						gs, ok := err.(interface{ GRPCStatus() *status.Status })
						if !ok || !proto.Equal(gs.GRPCStatus().Proto(), b.st.Proto()) {
							typedOK = false
						}
					}
				}
			}
			if err := tst.ReadMsg(ctx, new(emptypb.Empty)); !errors.Is(err, io.EOF) {
				typedOK = false
			}
		}()
	}

	obs := c13SessObs{W: wobs, R: robs, ROps: rops, TypedOK: typedOK}
	e.Emit(class, in, obs, func(id int) string {
		wops := make([]string, len(in.WOps))
		for i, op := range in.WOps {
			b := &bs[i]
			switch op.Kind {
			case 0:
				wops[i] = coqApp("WMsg", coqOpt(b.innOK, coqBytes(b.inner)))
			case 1:
				payload := coqOpt(false, "")
				if wobs[i].K == "ok" && len(wobs[i].B) >= 4 {
					payload = coqOpt(true, coqBytes(wobs[i].B[4:]))
				}
				ents := make([]string, len(b.ents))
				for j, en := range b.ents {
					ents[j] = coqPair(coqBytes(en.Url), coqBytes(en.Val))
				}
				wops[i] = coqApp("WHdr", payload, coqBytes(b.canon), coqOpt(b.entOK, coqList(ents)))
			case 2:
				wops[i] = coqApp("WStatus", c13CoqStatus(op.S))
			default:
				wops[i] = coqApp("WHandler", c13CoqHerr(op.H, b.err))
			}
		}
		ws := make([]string, len(wobs))
		for i, w := range wobs {
			switch w.K {
			case "ok":
				ws[i] = coqApp("WOk", coqBytes(w.B))
			case "fail":
				ws[i] = "WFail"
			default:
				ws[i] = "WOdd"
			}
		}
		pat := make([]string, len(in.Pattern))
		for i, c := range in.Pattern {
			pat[i] = coqN(uint64(c))
		}
		ro := make([]string, len(rops))
		for i, k := range rops {
			ro[i] = coqN(uint64(k))
		}
		rs := make([]string, len(robs))
		for i, o := range robs {
			rs[i] = o.coq()
		}
		hs := make([]string, len(hdrs))
		for i, h := range hdrs {
			hs[i] = coqPair(coqBytes(h.body), coqOpt(h.ok, coqBytes(h.canon)))
		}
		sess := coqApp("Session", coqBool(in.Honest), coqList(wops), coqList(ws),
			coqOpt(in.HasStr, coqBytes(in.Stream)), coqList(pat), coqList(ro), coqList(rs), coqList(hs), coqBool(typedOK))
		return coqRecord("id", coqN(uint64(id)), "cb", sess)
	})
}

// ---------------------------------------------------------------------------------------------
// near-limit frames

func c13VarintLen(v int) int { return protowire.SizeVarint(uint64(v)) }

func c13Big(e *vfEnv, class string, in c13In) {
	ctx := context.Background()
	n := in.N
	var m proto.Message = new(emptypb.Empty)
	if n >= 3 {
		// BytesValue{Value: k bytes} marshals to 0a ++ varint k ++ k bytes
		k := n - 2
		for k > 0 && 1+c13VarintLen(k)+k > n {
			k--
		}
		if 1+c13VarintLen(k)+k != n {
			n = 1 + c13VarintLen(k) + k // lengths not of this shape are rounded down
		}
		val := make([]byte, k)
		r := rand.New(rand.NewSource(int64(n)))
		r.Read(val)
		m = &wrapperspb.BytesValue{Value: val}
	} else {
		n = 0
	}
	wnet := &c13Pipe{}
	wst := newStream(wnet, nil, nil)
	err := wst.WriteMsg(ctx, m)
	var whead []byte
	wlen := 0
	if err == nil && len(wnet.writes) == 1 && len(wnet.writes[0]) >= n {
		w := wnet.writes[0]
		wlen = len(w)
		whead = w[:len(w)-n]
	}
	pat := in.Pattern
	if len(pat) == 0 {
		pat = []int{65536}
	}
	rnet := &c13Pipe{data: bytes.Join(wnet.writes, nil), pattern: pat}
	rst := newStream(rnet, nil, nil)
	m2 := new(wrapperspb.BytesValue)
	rerr := rst.ReadMsg(ctx, m2)
	racc := rerr == nil
	rlen := 0
	req := false
	if racc {
		b2, _ := proto.Marshal(m2)
		rlen = len(b2)
		if n == 0 {
			req = len(m2.Value) == 0
		} else {
			req = proto.Equal(m, m2)
		}
	} else if !errors.Is(rerr, msgio.ErrMsgTooLarge) {
		wlen = 0 // neither accepted nor the size error: force a mismatch
	}
	type bobs struct {
		N     int
		WHead []byte
		WLen  int
		RAcc  bool
		RLen  int
		REq   bool
	}
	e.Emit(class, in, bobs{n, whead, wlen, racc, rlen, req}, func(id int) string {
		return coqRecord("id", coqN(uint64(id)), "cb", coqApp("Big", coqN(uint64(n)), coqBytes(whead),
			coqN(uint64(wlen)), coqBool(racc), coqN(uint64(rlen)), coqBool(req)))
	})
}

// ---------------------------------------------------------------------------------------------
// end to end: the handler epilogue of a real service

type c13RegAdapter struct{}

func (c13RegAdapter) CheckProviderRegistered(context.Context, common.Address) bool { return true }

type c13E2E struct {
	srv, cli *Service
	peer     p2p.Peer
	n        int
}

func c13KeyedService(t *testing.T, r *rand.Rand) *Service {
	for {
		b := make([]byte, 32)
		r.Read(b)
		k, err := crypto.ToECDSA(b)
		if err != nil {
			continue
		}
		svc, err := New(&Options{
			KeySigner:  mockkeysigner.NewMockKeySigner(k, crypto.PubkeyToAddress(k.PublicKey)),
			Secret:     "c13",
			ListenPort: 0,
			ListenAddr: "127.0.0.1",
			PeerType:   p2p.PeerTypeProvider,
			Register:   c13RegAdapter{},
			MetricsReg: prometheus.NewRegistry(),
			Logger:     slog.New(slog.NewTextHandler(io.Discard, &slog.HandlerOptions{Level: slog.LevelError})),
		})
		if err != nil {
			t.Fatalf("c13: service: %v", err)
		}
		return svc
	}
}

func c13StartE2E(t *testing.T) *c13E2E {
	r := rand.New(rand.NewSource(13))
	x := &c13E2E{srv: c13KeyedService(t, r), cli: c13KeyedService(t, r)}
	addr, err := x.srv.Addrs()
	if err != nil {
		t.Fatalf("c13: addrs: %v", err)
	}
	ctx, cancel := context.WithTimeout(context.Background(), 30*time.Second)
	defer cancel()
	p, err := x.cli.Connect(ctx, addr)
	if err != nil {
		t.Fatalf("c13: connect: %v", err)
	}
	x.peer = p
	return x
}

func (x *c13E2E) close() {
	_ = x.cli.Close()
	_ = x.srv.Close()
}

func (x *c13E2E) run(e *vfEnv, class string, in c13In) {
	x.n++
	var herr error
	if in.E != nil {
		herr = c13BuildErr(in.E)
	}
	desc := p2p.StreamDesc{
		Name:    fmt.Sprintf("c13e2e%d", x.n),
		Version: "1.0.0",
		Handler: func(ctx context.Context, _ p2p.Peer, _ p2p.Stream) error { return herr },
	}
	x.srv.AddStreamHandlers(desc)
	ctx, cancel := context.WithTimeout(context.Background(), 30*time.Second)
	defer cancel()
	var o c13RObs
	str, err := x.cli.NewStream(ctx, x.peer, nil, desc)
	if err != nil {
		// the responder resets the stream when the status cannot be marshalled; the reset can
		// overtake the response header.  Anywhere else this is a mismatch.
		o = c13RObs{K: "other"}
	} else {
		done := make(chan c13RObs, 1)
		go func() { done <- c13ReadMsgObs(str) }()
		select {
		case o = <-done:
		case <-ctx.Done():
			o = c13RObs{K: "other"}
		}
		_ = str.Reset()
	}
	e.Emit(class, in, o, func(id int) string {
		he := "None"
		if in.E != nil {
			he = coqApp("Some", c13CoqHerr(in.E, herr))
		}
		return coqRecord("id", coqN(uint64(id)), "cb", coqApp("E2E", he, o.coq()))
	})
}

// ---------------------------------------------------------------------------------------------
// blocking network stream: Read waits for bytes, Write can be stalled

type c13BlockPipe struct {
	mu      sync.Mutex
	cond    *sync.Cond
	buf     []byte
	closed  bool
	waiting int // Read calls blocked for data
	stall   bool
	stalled int // Write calls blocked by the stalled peer
	writes  [][]byte
}

func c13NewBlockPipe() *c13BlockPipe {
	p := &c13BlockPipe{}
	p.cond = sync.NewCond(&p.mu)
	return p
}

func (p *c13BlockPipe) Read(b []byte) (int, error) {
	p.mu.Lock()
	defer p.mu.Unlock()
	for len(p.buf) == 0 && !p.closed {
		p.waiting++
		p.cond.Wait()
		p.waiting--
	}
	if len(p.buf) == 0 {
		return 0, io.EOF
	}
	n := copy(b, p.buf)
	p.buf = p.buf[n:]
	return n, nil
}

func (p *c13BlockPipe) Write(b []byte) (int, error) {
	p.mu.Lock()
	defer p.mu.Unlock()
	for p.stall && !p.closed {
		p.stalled++
		p.cond.Wait()
		p.stalled--
	}
	p.writes = append(p.writes, append([]byte(nil), b...))
	return len(b), nil
}

func (p *c13BlockPipe) feed(b []byte) {
	p.mu.Lock()
	p.buf = append(p.buf, b...)
	p.mu.Unlock()
	p.cond.Broadcast()
}

func (p *c13BlockPipe) resume() {
	p.mu.Lock()
	p.stall = false
	p.mu.Unlock()
	p.cond.Broadcast()
}

func (p *c13BlockPipe) Close() error {
	p.mu.Lock()
	p.closed = true
	p.mu.Unlock()
	p.cond.Broadcast()
	return nil
}
func (p *c13BlockPipe) Reset() error { return p.Close() }

func (p *c13BlockPipe) get(f func() int) int {
	p.mu.Lock()
	defer p.mu.Unlock()
	return f()
}

// wait until cond holds or the limit expires (no fixed sleeps: the limit is only reached on failure)
func c13Until(limit time.Duration, cond func() bool) bool {
	deadline := time.Now().Add(limit)
	for {
		if cond() {
			return true
		}
		if time.Now().After(deadline) {
			return false
		}
		time.Sleep(time.Millisecond)
	}
}

var c13Inconclusive = map[string]int{}

func c13BytesMsgs(inners [][]byte) (msgs []proto.Message, wire [][]byte) {
	for _, v := range inners {
		m := &wrapperspb.BytesValue{Value: v}
		b, _ := proto.Marshal(m)
		if b == nil {
			b = []byte{}
		}
		msgs = append(msgs, m)
		wire = append(wire, b)
	}
	return
}

// abandoned reads: a ReadMsg whose context has ended returns at once but leaves its goroutine
// behind holding the msgio reader; one message per call is then written
func c13Abandon(e *vfEnv, class string, in c13In) {
	limit := 20 * time.Second * time.Duration(e.Slow)
	msgs, inner := c13BytesMsgs(in.Inners)
	if len(msgs) != len(in.Reqs) {
		return
	}
	wcap := &c13Pipe{}
	wst := newStream(wcap, nil, nil)
	for _, m := range msgs {
		if err := wst.WriteMsg(context.Background(), m); err != nil {
			return
		}
	}
	if len(wcap.writes) != len(msgs) {
		return
	}
	rp := c13NewBlockPipe()
	defer rp.Close()
	rd := newStream(rp, nil, nil)
	var got []c13RObs
	pending := 0 // frames owed to goroutines left behind
	idx := 0
	for _, rq := range in.Reqs {
		if rq == 1 {
			ctx, cancel := context.WithCancel(context.Background())
			cancel()
			err := rd.ReadMsg(ctx, new(emptypb.Empty))
			if !errors.Is(err, context.Canceled) {
				got = append(got, c13RObs{K: "other"})
				break
			}
			// positive synchronisation: the goroutine left behind is blocked in the network read
			if !c13Until(limit, func() bool { return rp.get(func() int { return rp.waiting }) == 1 }) {
				c13Inconclusive[class]++
				return
			}
			pending++
			continue
		}
		var b []byte
		for i := 0; i <= pending; i++ {
			b = append(b, wcap.writes[idx+i]...)
		}
		idx += pending + 1
		pending = 0
		rp.feed(b)
		done := make(chan c13RObs, 1)
		go func() { done <- c13ReadMsgObs(rd) }()
		select {
		case o := <-done:
			got = append(got, o)
		case <-time.After(limit):
			c13Inconclusive[class]++
			return
		}
	}
	e.Emit(class, in, got, func(id int) string {
		is := make([]string, len(inner))
		for i, b := range inner {
			is[i] = coqBytes(b)
		}
		rs := make([]string, len(in.Reqs))
		for i, r := range in.Reqs {
			rs[i] = coqN(uint64(r))
		}
		gs := make([]string, len(got))
		for i, o := range got {
			gs[i] = o.coq()
		}
		return coqRecord("id", coqN(uint64(id)), "cb", coqApp("Abandon", coqList(is), coqList(rs), coqList(gs)))
	})
}

// writes behind a peer that does not take bytes: the first call is stuck inside the network
// write, later calls queue behind it; calls marked 1 are given up through their context
func c13Stalled(e *vfEnv, class string, in c13In) {
	limit := 20 * time.Second * time.Duration(e.Slow)
	msgs, inner := c13BytesMsgs(in.Inners)
	if len(msgs) != len(in.Calls) || len(msgs) == 0 {
		return
	}
	np := c13NewBlockPipe()
	np.stall = true
	defer np.Close()
	wst := newStream(np, nil, nil)
	type res struct {
		i   int
		err error
	}
	results := make(chan res, len(msgs))
	completed := 0
	for i, m := range msgs {
		i, m := i, m
		switch {
		case i == 0:
			ctx, cancel := context.WithCancel(context.Background())
			defer cancel()
			first := make(chan error, 1)
			go func() { first <- wst.WriteMsg(ctx, m) }()
			if !c13Until(limit, func() bool { return np.get(func() int { return np.stalled }) == 1 }) {
				c13Inconclusive[class]++
				return
			}
			if in.Calls[0] == 1 {
				cancel()
				select {
				case err := <-first:
					if !errors.Is(err, context.Canceled) {
						c13Inconclusive[class]++
						return
					}
				case <-time.After(limit):
					c13Inconclusive[class]++
					return
				}
			} else {
				completed++
				go func() { results <- res{0, <-first} }()
			}
		case in.Calls[i] == 1:
			ctx, cancel := context.WithCancel(context.Background())
			cancel()
			if err := wst.WriteMsg(ctx, m); !errors.Is(err, context.Canceled) {
				c13Inconclusive[class]++
				return
			}
		default:
			completed++
			go func() { results <- res{i, wst.WriteMsg(context.Background(), m)} }()
		}
	}
	np.resume()
	for k := 0; k < completed; k++ {
		select {
		case r := <-results:
			if r.err != nil {
				c13Inconclusive[class]++
				return
			}
		case <-time.After(limit):
			c13Inconclusive[class]++
			return
		}
	}
	// the goroutines of the given-up calls finish on their own
	if !c13Until(limit, func() bool { return np.get(func() int { return len(np.writes) }) >= len(msgs) }) {
		c13Inconclusive[class]++
		return
	}
	np.mu.Lock()
	wire := append([][]byte(nil), np.writes...)
	np.mu.Unlock()
	e.Emit(class, in, wire, func(id int) string {
		is := make([]string, len(inner))
		for i, b := range inner {
			is[i] = coqBytes(b)
		}
		cs := make([]string, len(in.Calls))
		for i, c := range in.Calls {
			cs[i] = coqN(uint64(c))
		}
		ws := make([]string, len(wire))
		for i, w := range wire {
			ws[i] = coqBytes(w)
		}
		return coqRecord("id", coqN(uint64(id)), "cb", coqApp("StalledWrites", coqList(is), coqList(cs), coqList(ws)))
	})
}

// ---------------------------------------------------------------------------------------------
// generators

func c13RandBytes(r *rand.Rand, n int) []byte {
	b := make([]byte, n)
	r.Read(b)
	return b
}

var c13Texts = []string{"", "x", "test error", "héllo wörld", "世界 — ошибка ✓ 😀", "peer not found",
	"rpc error: code = Internal desc = nested", strings.Repeat("long message ", 25), strings.Repeat("é", 70),
	"a\x00b", "line1\nline2", strings.Repeat("z", 127), strings.Repeat("z", 128)}

func c13Text(r *rand.Rand) []byte { return []byte(c13Texts[r.Intn(len(c13Texts))]) }

func c13Pattern(r *rand.Rand) []int {
	switch r.Intn(7) {
	case 0:
		return []int{1}
	case 1:
		return []int{2}
	case 2:
		return []int{3}
	case 3:
		return []int{1 << 20}
	case 4:
		return []int{4, 1, 0, 7}
	default:
		n := 1 + r.Intn(6)
		p := make([]int, n)
		for i := range p {
			switch r.Intn(4) {
			case 0:
				p[i] = r.Intn(4)
			case 1:
				p[i] = 1 + r.Intn(9)
			default:
				p[i] = 1 + r.Intn(200)
			}
		}
		p[r.Intn(n)] = 1 + r.Intn(17) // at least one positive size
		return p
	}
}

// maxFields bounds the number of entries of every map (1 = marshalling is deterministic)
func c13GenValue(r *rand.Rand, depth, maxFields int) *structpb.Value {
	k := r.Intn(6)
	if depth <= 0 && k >= 4 {
		k = r.Intn(4)
	}
	switch k {
	case 0:
		return structpb.NewNullValue()
	case 1:
		return structpb.NewNumberValue([]float64{0, 1, -2.5, 1e300, 42}[r.Intn(5)])
	case 2:
		return structpb.NewStringValue(string(c13Text(r)))
	case 3:
		return structpb.NewBoolValue(r.Intn(2) == 0)
	case 4:
		n := r.Intn(3)
		vs := make([]*structpb.Value, n)
		for i := range vs {
			vs[i] = c13GenValue(r, depth-1, maxFields)
		}
		return structpb.NewListValue(&structpb.ListValue{Values: vs})
	default:
		f := map[string]*structpb.Value{}
		for i, n := 0, r.Intn(3); i < n && i < maxFields; i++ {
			f[fmt.Sprintf("f%d", r.Intn(5))] = c13GenValue(r, depth-1, maxFields)
		}
		return structpb.NewStructValue(&structpb.Struct{Fields: f})
	}
}

func c13GenHeaderOp(r *rand.Rand, maxFields int) c13WOp {
	if r.Intn(8) == 0 {
		return c13WOp{Kind: 1, NilHdr: true}
	}
	h := p2p.Header{}
	keys := []string{"", "k", "peer", "trace-id", "ключ", strings.Repeat("K", 130)}
	for i, n := 0, r.Intn(4); i < n && i < maxFields; i++ {
		h[keys[r.Intn(len(keys))]] = c13GenValue(r, 2, maxFields)
	}
	return c13WOp{Kind: 1, Wire: c13HdrCanon(h)}
}

func c13GenMsgOp(r *rand.Rand) c13WOp {
	var typ string
	var m proto.Message
	i64 := func() int64 {
		switch r.Intn(5) {
		case 0:
			return 0
		case 1:
			return -1
		case 2:
			return int64(r.Intn(1000))
		case 3:
			return 1<<63 - 1
		default:
			return r.Int63() - (1 << 62)
		}
	}
	blob := func() []byte {
		switch r.Intn(4) {
		case 0:
			return nil
		case 1:
			return c13RandBytes(r, 32)
		case 2:
			return c13RandBytes(r, 65)
		default:
			return c13RandBytes(r, r.Intn(200))
		}
	}
	bid := func() *preconfpb.Bid {
		return &preconfpb.Bid{TxHash: string(c13Text(r)), BidAmount: fmt.Sprint(r.Uint64()), BlockNumber: i64(),
			Digest: blob(), Signature: blob(), DecayStartTimestamp: i64(), DecayEndTimestamp: i64()}
	}
	switch r.Intn(11) {
	case 0:
		typ, m = "handshake.Req", &handshakepb.HandshakeReq{PeerType: []string{"", "provider", "bidder", "bootnode"}[r.Intn(4)],
			Token: string(c13Text(r)), Sig: blob()}
	case 1:
		typ, m = "handshake.Resp", &handshakepb.HandshakeResp{ObservedAddress: blob(), PeerType: "provider"}
	case 2:
		pl := &discoverypb.PeerList{}
		for i, n := 0, r.Intn(5); i < n; i++ {
			pl.Peers = append(pl.Peers, &discoverypb.PeerInfo{EthAddress: c13RandBytes(r, 20), Underlay: blob()})
		}
		typ, m = "discovery.PeerList", pl
	case 3:
		typ, m = "preconf.Bid", bid()
	case 4:
		pc := &preconfpb.PreConfirmation{Digest: blob(), Signature: blob(), ProviderAddress: c13RandBytes(r, 20)}
		if r.Intn(4) != 0 {
			pc.Bid = bid()
		}
		typ, m = "preconf.PreConfirmation", pc
	case 5:
		hm := new(streammsgv1.Header)
		_ = proto.Unmarshal(c13GenHeaderOp(r, 1).Wire, hm)
		typ, m = "streammsg.Header", hm
	case 6:
		typ, m = "rpc.Status", &spb.Status{Code: int32(r.Intn(17)), Message: string(c13Text(r))}
	case 7:
		typ, m = "bytes", &wrapperspb.BytesValue{Value: c13RandBytes(r, []int{0, 1, 125, 126, 127, 128, 300, 500}[r.Intn(8)])}
	case 8:
		// zero values of every protocol message
		typ = []string{"handshake.Req", "handshake.Resp", "discovery.PeerList", "preconf.Bid", "preconf.PreConfirmation", "empty"}[r.Intn(6)]
		m = c13NewMsg(typ)
	case 9:
		if r.Intn(3) == 0 {
			return c13WOp{Kind: 0, Typ: "badutf8"}
		}
		typ, m = "empty", new(emptypb.Empty)
	default:
		typ, m = "empty", new(emptypb.Empty)
	}
	w, _ := proto.Marshal(m)
	return c13WOp{Kind: 0, Typ: typ, Wire: w}
}

func c13GenStatus(r *rand.Rand) *c13Status {
	s := &c13Status{Msg: c13Text(r)}
	switch r.Intn(8) {
	case 0:
		s.Code = []int32{-1, -2147483648, 2147483647, 17, 100, 128, 16384}[r.Intn(7)]
	case 1:
		s.Code = 0
	default:
		s.Code = int32(1 + r.Intn(16))
	}
	if r.Intn(5) == 0 {
		for i, n := 0, 1+r.Intn(3); i < n; i++ {
			s.Details = append(s.Details, c13Any{
				Url: []byte([]string{"", "type.googleapis.com/google.rpc.ErrorInfo", "тип"}[r.Intn(3)]),
				Val: c13RandBytes(r, r.Intn(40))})
		}
	}
	if r.Intn(25) == 0 {
		s.Msg = []byte("bad \xff utf8")
	}
	if len(s.Details) > 0 && r.Intn(12) == 0 {
		s.Details[0].Url = []byte("\xc0\x80")
	}
	return s
}

func c13GenHerr(r *rand.Rand) *c13Herr {
	switch r.Intn(6) {
	case 0, 1:
		return &c13Herr{Kind: 0, Text: c13Text(r)}
	case 2, 3:
		return &c13Herr{Kind: 1, S: c13GenStatus(r)}
	case 4:
		return &c13Herr{Kind: 2, Text: c13Text(r)}
	default:
		return &c13Herr{Kind: 3, Text: c13Text(r), S: c13GenStatus(r)}
	}
}

func c13GenHonest(r *rand.Rand) c13In {
	in := c13In{Kind: 0, Honest: true, Pattern: c13Pattern(r), Pattern2: c13Pattern(r), EOFData: r.Intn(4) == 0}
	n := r.Intn(21)
	switch r.Intn(4) {
	case 0:
		n = r.Intn(4)
	case 1, 2:
		n = r.Intn(9)
	}
	for i := 0; i < n; i++ {
		var op c13WOp
		switch k := r.Intn(10); {
		case k < 6:
			op = c13GenMsgOp(r)
		case k < 8:
			op = c13GenHeaderOp(r, 3)
		case k < 9:
			op = c13WOp{Kind: 2, S: c13GenStatus(r)}
		default:
			op = c13WOp{Kind: 3, H: c13GenHerr(r)}
		}
		in.WOps = append(in.WOps, op)
		if op.Kind == 1 {
			in.ROps = append(in.ROps, 1)
		} else if !(op.Kind == 0 && op.Typ == "badutf8") && !c13WriteFails(op) {
			in.ROps = append(in.ROps, 0)
		}
	}
	return in
}

// whether the writer is expected to refuse the operation (invalid UTF-8); only used to line up
// the planned read kinds with the frames that will exist
func c13WriteFails(op c13WOp) bool {
	bad := func(s *c13Status) bool {
		if s == nil {
			return false
		}
		_, err := proto.Marshal(c13StatusProto(s))
		return err != nil
	}
	switch op.Kind {
	case 2:
		return bad(op.S)
	case 3:
		st, _ := status.FromError(c13BuildErr(op.H))
		_, err := proto.Marshal(st.Proto())
		return err != nil
	}
	return false
}

func c13Frame(body []byte) []byte {
	out := []byte{byte(len(body) >> 24), byte(len(body) >> 16), byte(len(body) >> 8), byte(len(body))}
	return append(out, body...)
}

func c13LenField(num protowire.Number, b []byte) []byte {
	return protowire.AppendBytes(protowire.AppendTag(nil, num, protowire.BytesType), b)
}

func c13StatusBytes(code uint64, msg []byte) []byte {
	var b []byte
	if code != 0 {
		b = protowire.AppendVarint(protowire.AppendTag(b, 1, protowire.VarintType), code)
	}
	if len(msg) > 0 {
		b = append(b, c13LenField(2, msg)...)
	}
	return b
}

// hostile frame bodies
func c13HostileBody(r *rand.Rand) []byte {
	data := c13LenField(1, c13RandBytes(r, r.Intn(6)))
	okData := c13LenField(1, c13LenField(1+protowire.Number(r.Intn(5)), c13Text(r)))
	errB := c13LenField(2, c13StatusBytes(uint64(1+r.Intn(16)), c13Text(r)))
	switch r.Intn(30) {
	case 0:
		return nil // zero-length frame: neither
	case 1:
		return protowire.AppendVarint(protowire.AppendTag(nil, 3, protowire.VarintType), 7) // unknown field only
	case 2:
		return protowire.AppendVarint(protowire.AppendTag(nil, 1, protowire.VarintType), 1) // data number, wrong wire type
	case 3:
		return protowire.AppendFixed64(protowire.AppendTag(nil, 2, protowire.Fixed64Type), 9) // error number, wrong wire type
	case 4:
		return append(append([]byte{}, okData...), errB...) // both: last wins (error)
	case 5:
		return append(append([]byte{}, errB...), okData...) // both: last wins (data)
	case 6:
		// error twice: merged
		return append(c13LenField(2, c13StatusBytes(5, []byte("first"))), c13LenField(2, c13StatusBytes(0, []byte("second")))...)
	case 7:
		return c13LenField(2, c13StatusBytes(0, c13Text(r))) // error member with code OK
	case 8:
		return c13LenField(2, nil) // empty error member
	case 9:
		return c13LenField(2, c13StatusBytes(3, []byte("bad \xff utf8")))
	case 10:
		return []byte{0x0a, 0x80, 0x00} // non-minimal length varint, empty data
	case 11:
		return []byte{0x8a, 0x00, 0x01, 0x41} // non-minimal tag
	case 12:
		return []byte{0x00, 0x01} // field number 0
	case 13:
		return protowire.AppendVarint(protowire.AppendTag(nil, protowire.MaxValidNumber, protowire.VarintType), 1)
	case 14:
		return protowire.AppendVarint(protowire.AppendVarint(nil, uint64(protowire.MaxValidNumber+1)<<3), 1)
	case 15:
		return []byte{0x0b, 0x0c} // start group 1 ... end group 1 (not modelled)
	case 16:
		return []byte{0x0c} // end group outside a group
	case 17:
		return []byte{0x0e, 0x00} // reserved wire type 6
	case 18:
		return []byte{0x0a, 0x05, 0x01} // truncated data
	case 19:
		return []byte{0x0a, 0xff, 0xff, 0xff, 0xff, 0xff, 0xff, 0xff, 0xff, 0xff, 0x01} // length 2^64-1
	case 20:
		return []byte{0xff, 0xff, 0xff, 0xff, 0xff, 0xff, 0xff, 0xff, 0xff, 0x7f} // varint overflow
	case 21:
		return c13LenField(2, protowire.AppendVarint(protowire.AppendTag(nil, 1, protowire.VarintType), 0xffffffff00000003)) // code truncated to int32 3
	case 22:
		return c13LenField(2, append(c13StatusBytes(4, nil), c13LenField(3, c13LenField(1, []byte("\xed\xa0\x80")))...)) // detail with surrogate url
	case 23:
		return c13LenField(2, append(c13StatusBytes(4, []byte("d")), c13LenField(3, append(c13LenField(1, []byte("u")), c13LenField(2, []byte{1, 2})...))...))
	case 24:
		return append(append([]byte{}, okData...), protowire.AppendFixed32(protowire.AppendTag(nil, 9, protowire.Fixed32Type), 1)...)
	case 25:
		return c13LenField(1, c13RandBytes(r, 1+r.Intn(12))) // data whose inner payload is garbage
	case 26:
		return c13LenField(2, c13RandBytes(r, 1+r.Intn(12))) // error member with garbage inside
	case 27, 28:
		return c13RandBytes(r, r.Intn(16)) // garbage
	default:
		b := append([]byte{}, [][]byte{data, okData, errB}[r.Intn(3)]...)
		if len(b) > 0 {
			b[r.Intn(len(b))] ^= 1 << uint(r.Intn(8))
		}
		return b
	}
}

func c13GenHostile(r *rand.Rand) c13In {
	in := c13In{Kind: 0, HasStr: true, Pattern: c13Pattern(r), EOFData: r.Intn(4) == 0}
	var s []byte
	for i, n := 0, r.Intn(6); i < n; i++ {
		if r.Intn(3) == 0 {
			w, _ := proto.Marshal(&streammsgv1.StreamMsg{Body: &streammsgv1.StreamMsg_Data{Data: c13RandBytes(r, 0)}})
			s = append(s, c13Frame(w)...)
		} else {
			s = append(s, c13Frame(c13HostileBody(r))...)
		}
	}
	switch r.Intn(6) {
	case 0: // oversized length prefix
		s = append(s, [][]byte{{0x00, 0x80, 0x00, 0x01}, {0xff, 0xff, 0xff, 0xff}, {0x80, 0x00, 0x00, 0x00}, {0x7f, 0xff, 0xff, 0xff}}[r.Intn(4)]...)
		s = append(s, c13RandBytes(r, r.Intn(9))...)
	case 1: // truncated
		if len(s) > 0 {
			s = s[:r.Intn(len(s))]
		}
	case 2: // partial prefix / partial body
		s = append(s, [][]byte{{0x00}, {0x00, 0x00, 0x00}, {0x00, 0x00, 0x00, 0x05}, {0x00, 0x00, 0x00, 0x05, 0x0a, 0x03}}[r.Intn(4)]...)
	case 3: // exactly the limit as a prefix, no body
		s = append(s, 0x00, 0x80, 0x00, 0x00)
	}
	if s == nil {
		s = []byte{}
	}
	in.Stream = s
	return in
}

func c13GenMixed(r *rand.Rand) c13In {
	in := c13GenHonest(r)
	in.Honest = false
	for i := range in.ROps {
		if r.Intn(2) == 0 {
			in.ROps[i] = 1 - in.ROps[i]
		}
	}
	return in
}

// ---------------------------------------------------------------------------------------------

// ---------------------------------------------------------------------------------------------
// the protobuf wire format of the protocol messages (model/ProtoWire.v): classes wire-marshal
// (proto.Marshal of generated messages, byte for byte) and wire-unmarshal (proto.Unmarshal of
// hostile bytes: accept/refuse and the decoded fields)

// one scalar field: I = int64 field with value Z, otherwise a string/bytes field with content B
type c13FV struct {
	I bool
	B []byte
	Z int64
}

// K: 0 HandshakeReq, 1 HandshakeResp, 2 PeerInfo, 3 Bid, 4 PeerList, 5 PreConfirmation
type c13WMsg struct {
	K      int
	Vs     []c13FV   // kinds 0-3: the fields in declaration order; kind 5: digest, signature, provider_address
	Ps     [][]c13FV // kind 4
	HasBid bool      // kind 5
	Bid    []c13FV
}

var c13WireShape = [][]bool{{false, false, false}, {false, false}, {false, false},
	{false, false, true, false, false, true, true}, nil, {false, false, false}}

func c13WireNew(k int) proto.Message {
	switch k {
	case 0:
		return new(handshakepb.HandshakeReq)
	case 1:
		return new(handshakepb.HandshakeResp)
	case 2:
		return new(discoverypb.PeerInfo)
	case 3:
		return new(preconfpb.Bid)
	case 4:
		return new(discoverypb.PeerList)
	default:
		return new(preconfpb.PreConfirmation)
	}
}

func c13WireShapeOK(vs []c13FV, shape []bool) bool {
	if len(vs) != len(shape) {
		return false
	}
	for i := range vs {
		if vs[i].I != shape[i] {
			return false
		}
	}
	return true
}

func c13BidProto(vs []c13FV) *preconfpb.Bid {
	return &preconfpb.Bid{TxHash: string(vs[0].B), BidAmount: string(vs[1].B), BlockNumber: vs[2].Z,
		Digest: vs[3].B, Signature: vs[4].B, DecayStartTimestamp: vs[5].Z, DecayEndTimestamp: vs[6].Z}
}

func c13BidVals(b *preconfpb.Bid) []c13FV {
	return []c13FV{{B: []byte(b.TxHash)}, {B: []byte(b.BidAmount)}, {I: true, Z: b.BlockNumber}, {B: b.Digest},
		{B: b.Signature}, {I: true, Z: b.DecayStartTimestamp}, {I: true, Z: b.DecayEndTimestamp}}
}

// nil when the input does not have the shape of its kind (a malformed replay input)
func c13WireBuild(m *c13WMsg) proto.Message {
	if m.K < 0 || m.K > 5 {
		return nil
	}
	if m.K != 4 && !c13WireShapeOK(m.Vs, c13WireShape[m.K]) {
		return nil
	}
	switch m.K {
	case 0:
		return &handshakepb.HandshakeReq{PeerType: string(m.Vs[0].B), Token: string(m.Vs[1].B), Sig: m.Vs[2].B}
	case 1:
		return &handshakepb.HandshakeResp{ObservedAddress: m.Vs[0].B, PeerType: string(m.Vs[1].B)}
	case 2:
		return &discoverypb.PeerInfo{EthAddress: m.Vs[0].B, Underlay: m.Vs[1].B}
	case 3:
		return c13BidProto(m.Vs)
	case 4:
		pl := &discoverypb.PeerList{}
		for _, p := range m.Ps {
			if !c13WireShapeOK(p, c13WireShape[2]) {
				return nil
			}
			pl.Peers = append(pl.Peers, &discoverypb.PeerInfo{EthAddress: p[0].B, Underlay: p[1].B})
		}
		return pl
	default:
		pc := &preconfpb.PreConfirmation{Digest: m.Vs[0].B, Signature: m.Vs[1].B, ProviderAddress: m.Vs[2].B}
		if m.HasBid {
			if !c13WireShapeOK(m.Bid, c13WireShape[3]) {
				return nil
			}
			pc.Bid = c13BidProto(m.Bid)
		}
		return pc
	}
}

func c13WireFields(k int, pm proto.Message) *c13WMsg {
	m := &c13WMsg{K: k}
	switch x := pm.(type) {
	case *handshakepb.HandshakeReq:
		m.Vs = []c13FV{{B: []byte(x.PeerType)}, {B: []byte(x.Token)}, {B: x.Sig}}
	case *handshakepb.HandshakeResp:
		m.Vs = []c13FV{{B: x.ObservedAddress}, {B: []byte(x.PeerType)}}
	case *discoverypb.PeerInfo:
		m.Vs = []c13FV{{B: x.EthAddress}, {B: x.Underlay}}
	case *preconfpb.Bid:
		m.Vs = c13BidVals(x)
	case *discoverypb.PeerList:
		for _, p := range x.Peers {
			m.Ps = append(m.Ps, []c13FV{{B: p.GetEthAddress()}, {B: p.GetUnderlay()}})
		}
	case *preconfpb.PreConfirmation:
		m.Vs = []c13FV{{B: x.Digest}, {B: x.Signature}, {B: x.ProviderAddress}}
		if x.Bid != nil {
			m.HasBid = true
			m.Bid = c13BidVals(x.Bid)
		}
	}
	return m
}

func c13CoqVals(vs []c13FV) string {
	var it []string
	for _, v := range vs {
		if v.I {
			it = append(it, coqApp("VI", coqZ(v.Z)))
		} else {
			it = append(it, coqApp("VB", coqBytes(v.B)))
		}
	}
	return coqList(it)
}

func c13CoqWMsg(m *c13WMsg) string {
	switch m.K {
	case 4:
		var ps []string
		for _, p := range m.Ps {
			ps = append(ps, c13CoqVals(p))
		}
		return coqApp("MPeers", coqList(ps))
	case 5:
		return coqApp("MPreconf", coqRecord("pc_bid", coqOpt(m.HasBid, c13CoqVals(m.Bid)), "pc_rest", c13CoqVals(m.Vs)))
	default:
		return coqApp("MFlat", coqN(uint64(m.K)), c13CoqVals(m.Vs))
	}
}

func c13WireEnc(e *vfEnv, class string, in c13In) {
	if in.WM == nil {
		return
	}
	pm := c13WireBuild(in.WM)
	if pm == nil {
		return
	}
	type wobs struct {
		Got  []byte
		OK   bool
		Back *c13WMsg
	}
	var o wobs
	func() {
		defer func() {
			if recover() != nil {
				o = wobs{Got: []byte("panic"), OK: true} // a mismatch
			}
		}()
		b, err := proto.MarshalOptions{Deterministic: true}.Marshal(pm)
		if err != nil {
			return
		}
		if b == nil {
			b = []byte{}
		}
		o.Got, o.OK = b, true
		// the plain Marshal the production code uses must give the same bytes for these types
		if b2, err2 := proto.Marshal(pm); err2 != nil || !bytes.Equal(b2, b) {
			o.Got = append([]byte("nondeterministic:"), b2...)
		}
		fresh := c13WireNew(in.WM.K)
		if proto.Unmarshal(b, fresh) == nil {
			o.Back = c13WireFields(in.WM.K, fresh)
		}
	}()
	e.Emit(class, in, o, func(id int) string {
		back := "None"
		if o.Back != nil {
			back = coqOpt(true, c13CoqWMsg(o.Back))
		}
		return coqRecord("id", coqN(uint64(id)), "cb", coqApp("WireEnc", c13CoqWMsg(in.WM), coqOpt(o.OK, coqBytes(o.Got)), back))
	})
}

func c13WireDec(e *vfEnv, class string, in c13In) {
	k := in.WK
	if k < 0 || k > 5 {
		return
	}
	type dobs struct {
		Acc    bool
		Panic  bool
		Fields *c13WMsg
	}
	var o dobs
	func() {
		defer func() {
			if recover() != nil {
				o = dobs{Panic: true}
			}
		}()
		fresh := c13WireNew(k)
		if proto.Unmarshal(in.Stream, fresh) == nil {
			o.Acc = true
			o.Fields = c13WireFields(k, fresh)
		}
	}()
	e.Emit(class, in, o, func(id int) string {
		got := "None"
		if o.Panic {
			// neither accepted nor refused: a message of another kind can never agree
			got = coqOpt(true, coqApp("MFlat", coqN(99), coqList(nil)))
		} else if o.Acc {
			got = coqOpt(true, c13CoqWMsg(o.Fields))
		}
		return coqRecord("id", coqN(uint64(id)), "cb", coqApp("WireDec", coqN(uint64(k)), coqBytes(in.Stream), got))
	})
}

var c13WireStrings = []string{"", "", "bidder", "provider", "bootnode", "0xabcdef", "1000000000000000000", "世界 ✓",
	"\xff\xfe", "a\xc3", "token-with-some-length-beyond-one-byte-of-varint-length-prefix................................" +
		"......................................................................"}

func c13WireBytes(r *rand.Rand, str bool) []byte {
	switch r.Intn(6) {
	case 0:
		return nil
	case 1:
		if str {
			return []byte(c13WireStrings[r.Intn(len(c13WireStrings))])
		}
		return c13RandBytes(r, 20+r.Intn(46))
	case 2:
		if str && r.Intn(4) != 0 {
			return []byte(c13WireStrings[2+r.Intn(6)])
		}
		return c13RandBytes(r, r.Intn(200))
	default:
		if str {
			return []byte(c13WireStrings[r.Intn(8)])
		}
		return c13RandBytes(r, r.Intn(40))
	}
}

var c13WireInts = []int64{0, 0, 1, -1, 127, 128, 300, 16383, 16384, 1 << 31, -(1 << 31), 1<<63 - 1, -(1 << 63), 1700000000000}

func c13WireInt(r *rand.Rand) int64 {
	if r.Intn(3) == 0 {
		return int64(r.Uint64())
	}
	return c13WireInts[r.Intn(len(c13WireInts))]
}

var c13WireIsStr = [][]bool{{true, true, false}, {false, true}, {false, false},
	{true, true, false, false, false, false, false}, nil, {false, false, false}}

func c13WireVals(r *rand.Rand, k int) []c13FV {
	var vs []c13FV
	for i, isInt := range c13WireShape[k] {
		if isInt {
			vs = append(vs, c13FV{I: true, Z: c13WireInt(r)})
		} else {
			vs = append(vs, c13FV{B: c13WireBytes(r, c13WireIsStr[k][i])})
		}
	}
	return vs
}

func c13GenWMsg(r *rand.Rand) *c13WMsg {
	k := r.Intn(6)
	m := &c13WMsg{K: k}
	switch k {
	case 4:
		for n := r.Intn(5); n > 0; n-- {
			m.Ps = append(m.Ps, c13WireVals(r, 2))
		}
	case 5:
		m.Vs = c13WireVals(r, 5)
		if r.Intn(4) != 0 {
			m.HasBid = true
			m.Bid = c13WireVals(r, 3)
			if r.Intn(5) == 0 {
				m.Bid = []c13FV{{}, {}, {I: true}, {}, {}, {I: true}, {I: true}} // a set but empty bid
			}
		}
	default:
		m.Vs = c13WireVals(r, k)
	}
	return m
}

// hostile inputs for Unmarshal: valid encodings cut, flipped, extended with unknown fields,
// repeated fields (last wins / merge), known numbers with other wire types, overlong and
// overflowing varints, bad field numbers, reserved wire types, lengths beyond the input
func c13WireHostile(r *rand.Rand, k int) []byte {
	valid := func(kk int) []byte {
		for {
			m := c13GenWMsg(r)
			if m.K != kk {
				continue
			}
			if b, err := proto.Marshal(c13WireBuild(m)); err == nil {
				return b
			}
		}
	}
	extra := func() []byte {
		num := protowire.Number(1 + r.Intn(9))
		switch r.Intn(12) {
		case 0:
			return protowire.AppendVarint(protowire.AppendTag(nil, num, protowire.VarintType), r.Uint64()>>uint(r.Intn(64)))
		case 1:
			return protowire.AppendFixed32(protowire.AppendTag(nil, num, protowire.Fixed32Type), r.Uint32())
		case 2:
			return protowire.AppendFixed64(protowire.AppendTag(nil, num, protowire.Fixed64Type), r.Uint64())
		case 3:
			return c13LenField(num, c13WireBytes(r, r.Intn(2) == 0))
		case 4:
			return c13LenField(num, valid(r.Intn(6))) // a nested message where one may be expected
		case 5:
			return []byte{byte(num)<<3 | 0, 0x80, 0x80, 0x00} // non-minimal varint
		case 6:
			return append([]byte{byte(num)<<3 | 0}, 0xff, 0xff, 0xff, 0xff, 0xff, 0xff, 0xff, 0xff, 0xff, byte(r.Intn(4))) // 10 bytes, maybe overflowing
		case 7:
			return protowire.AppendVarint(protowire.AppendVarint(nil, uint64(r.Intn(8))), 1) // field number 0
		case 8:
			return protowire.AppendVarint(protowire.AppendVarint(nil, uint64(1<<29+r.Intn(5)-2)<<3), 1) // around the largest field number
		case 9:
			return []byte{byte(num)<<3 | byte(6+r.Intn(2)), 1} // reserved wire types
		case 10:
			return protowire.AppendVarint(protowire.AppendTag(nil, num, protowire.BytesType), uint64(1+r.Intn(300))) // length beyond the input
		default:
			if r.Intn(4) == 0 {
				return []byte{byte(num)<<3 | byte(3+r.Intn(2))} // start / end group tag
			}
			return protowire.AppendVarint(protowire.AppendTag(nil, protowire.Number(10+r.Intn(1000000)), protowire.VarintType), uint64(r.Intn(1000)))
		}
	}
	switch r.Intn(8) {
	case 0:
		return c13RandBytes(r, r.Intn(12))
	case 1:
		b := valid(k)
		if len(b) > 0 {
			b = b[:r.Intn(len(b))]
		}
		return b
	case 2:
		b := append([]byte{}, valid(k)...)
		if len(b) > 0 {
			b[r.Intn(len(b))] ^= byte(1 << uint(r.Intn(8)))
		}
		return b
	case 3:
		return append(append([]byte{}, valid(k)...), valid(k)...) // every field twice: last wins, lists append, messages merge
	case 4:
		return valid(r.Intn(6)) // the encoding of another kind
	default:
		var b []byte
		for n := 1 + r.Intn(4); n > 0; n-- {
			if r.Intn(3) == 0 {
				b = append(b, valid(k)...)
			} else {
				b = append(b, extra()...)
			}
		}
		return b
	}
}

func TestVerifC13(t *testing.T) {
	e := vfOpen(t, 100)
	defer e.Close()
	var x *c13E2E
	defer func() {
		if x != nil {
			x.close()
		}
	}()
	run := func(class string, in c13In) {
		switch in.Kind {
		case 1:
			c13Big(e, class, in)
		case 2:
			if x == nil {
				x = c13StartE2E(t)
			}
			x.run(e, class, in)
		case 3:
			c13Abandon(e, class, in)
		case 4:
			c13Stalled(e, class, in)
		case 5:
			c13WireEnc(e, class, in)
		case 6:
			c13WireDec(e, class, in)
		default:
			if len(in.Pattern) == 0 {
				in.Pattern = []int{1}
			}
			c13Session(e, class, in)
		}
	}
	for _, raw := range e.Replay {
		var in c13In
		if err := json.Unmarshal(raw, &in); err != nil {
			t.Fatalf("bad replay input: %v", err)
		}
		run("replay", in)
	}
	if e.OnlyReplay() {
		return
	}
	r := e.rng

	// fixed cases: every status code with empty / long / UTF-8 messages
	for code := int32(1); code <= 16; code++ {
		for _, msg := range []string{"", strings.Repeat("long message ", 25), "世界 — ошибка ✓ 😀"} {
			run("status-codes", c13In{Kind: 0, Honest: true, Pattern: []int{1 + int(code)%3}, Pattern2: []int{2},
				WOps: []c13WOp{{Kind: 2, S: &c13Status{Code: code, Msg: []byte(msg)}}}, ROps: []int{0}})
		}
	}
	// every protocol message type, zero and populated, chunk sizes 1, 2, 3
	for _, sz := range []int{1, 2, 3} {
		var ops []c13WOp
		var rops []int
		for i := 0; i < 20; i++ {
			op := c13GenMsgOp(r)
			if op.Typ == "badutf8" {
				continue
			}
			ops = append(ops, op)
			rops = append(rops, 0)
		}
		run("all-types", c13In{Kind: 0, Honest: true, Pattern: []int{sz}, Pattern2: []int{4 - sz, 1}, WOps: ops, ROps: rops})
	}
	run("empty-session", c13In{Kind: 0, Honest: true, Pattern: []int{1}, Pattern2: []int{1}})
	// an error frame with code OK: ReadMsg returns nil and leaves the destination untouched
	// (correspondence only: outside the property)
	okst := func(msg string) c13WOp { return c13WOp{Kind: 2, S: &c13Status{Code: 0, Msg: []byte(msg)}} }
	run("ok-error-frame", c13In{Kind: 0, Honest: true, Pattern: []int{1}, Pattern2: []int{3}, WOps: []c13WOp{okst("not data")}, ROps: []int{0}})
	run("ok-error-frame", c13In{Kind: 0, Honest: true, Pattern: []int{1 << 20}, Pattern2: []int{1}, WOps: []c13WOp{c13GenMsgOp(r), okst(""), c13GenMsgOp(r)}, ROps: []int{0, 0, 0}})
	run("ok-error-frame", c13In{Kind: 0, Honest: true, Pattern: []int{2}, Pattern2: []int{5}, WOps: []c13WOp{okst("héllo"), okst("x"), {Kind: 2, S: &c13Status{Code: 0, Msg: []byte("d"), Details: []c13Any{{Url: []byte("u"), Val: []byte{1}}}}}}, ROps: []int{0, 0, 0}})
	// one destination message reused across reads: populated, then empty, then populated again
	{
		mk := func(typ string, m proto.Message) c13WOp { w, _ := proto.Marshal(m); return c13WOp{Kind: 0, Typ: typ, Wire: w} }
		pi := func() *discoverypb.PeerInfo { return &discoverypb.PeerInfo{EthAddress: c13RandBytes(r, 20), Underlay: c13RandBytes(r, 30)} }
		bid := &preconfpb.Bid{TxHash: "0xabc", BidAmount: "10", BlockNumber: 5, Digest: c13RandBytes(r, 32), Signature: c13RandBytes(r, 65), DecayStartTimestamp: 1, DecayEndTimestamp: 2}
		ops := []c13WOp{
			mk("discovery.PeerList", &discoverypb.PeerList{Peers: []*discoverypb.PeerInfo{pi(), pi()}}),
			mk("discovery.PeerList", &discoverypb.PeerList{}),
			mk("discovery.PeerList", &discoverypb.PeerList{Peers: []*discoverypb.PeerInfo{pi()}}),
			mk("preconf.Bid", bid), mk("preconf.Bid", &preconfpb.Bid{}), mk("preconf.Bid", &preconfpb.Bid{BidAmount: "7"}),
			mk("preconf.PreConfirmation", &preconfpb.PreConfirmation{Bid: bid, Digest: c13RandBytes(r, 32)}),
			mk("preconf.PreConfirmation", &preconfpb.PreConfirmation{}),
			mk("handshake.Req", &handshakepb.HandshakeReq{PeerType: "provider", Token: "t", Sig: c13RandBytes(r, 65)}),
			mk("handshake.Req", &handshakepb.HandshakeReq{}),
			mk("bytes", &wrapperspb.BytesValue{Value: []byte("abc")}), mk("bytes", &wrapperspb.BytesValue{}),
		}
		rops := make([]int, len(ops))
		for _, pat := range [][]int{{1}, {1 << 20}, {7, 2}} {
			run("reuse-dest", c13In{Kind: 0, Honest: true, Pattern: pat, Pattern2: pat, WOps: ops, ROps: rops})
		}
	}
	// abandoned reads (outside the property; compared with the model's serve): never two given-up
	// calls in a row, so at most one goroutine is left behind at a time
	for _, reqs := range [][]int{{1, 0}, {1, 0, 0}, {0, 1, 0}, {0, 0}, {1, 0, 1, 0}, {0, 1, 0, 0, 1, 0}, {0, 1}} {
		inn := make([][]byte, len(reqs))
		for i := range inn {
			inn[i] = append([]byte(fmt.Sprintf("m%d-", i)), c13RandBytes(r, r.Intn(40))...)
		}
		run("abandoned-read", c13In{Kind: 3, Inners: inn, Reqs: reqs})
	}
	// writes behind a stalled peer, some given up while stuck or queued
	for _, calls := range [][]int{{1, 1, 0}, {1, 0, 0}, {0, 1, 0}, {1, 1, 1, 0, 0}, {0, 0}, {1, 0}} {
		for _, shrinking := range []bool{false, true} {
			inn := make([][]byte, len(calls))
			for i := range inn {
				n := 1 + r.Intn(60)
				if shrinking {
					n = 70 - 12*i + r.Intn(5) // later messages fit into an earlier message's buffer
				}
				inn[i] = append([]byte(fmt.Sprintf("w%d-", i)), c13RandBytes(r, n)...)
			}
			run("stalled-writes", c13In{Kind: 4, Inners: inn, Calls: calls})
		}
	}
	// the production arrangement: the header is read through the metadata stream's reader, what
	// follows through the data stream's reader, both over the same network stream, and the header
	// arrives in ONE chunk together with the frames behind it (a reader that reads ahead loses them)
	for i := 0; i < 12; i++ {
		hop := c13GenHeaderOp(r, 3)
		var ops []c13WOp
		var rops []int
		switch i % 4 {
		case 0:
			ops = []c13WOp{hop, c13GenMsgOp(r), c13GenMsgOp(r)}
		case 1:
			ops = []c13WOp{hop, {Kind: 2, S: &c13Status{Code: int32(1 + r.Intn(16)), Msg: c13Text(r)}}}
		case 2:
			ops = []c13WOp{hop, c13GenHeaderOp(r, 3), c13GenMsgOp(r), {Kind: 3, H: &c13Herr{Kind: 0, Text: []byte("boom")}}}
		default:
			ops = []c13WOp{hop, c13GenMsgOp(r), c13GenHeaderOp(r, 3), c13GenMsgOp(r)}
		}
		for j := range ops {
			if ops[j].Kind == 0 && ops[j].Typ == "badutf8" {
				ops[j] = c13WOp{Kind: 0, Typ: "empty"}
			}
			if ops[j].Kind == 1 {
				rops = append(rops, 1)
			} else {
				rops = append(rops, 0)
			}
		}
		pat := []int{1 << 20}
		if i >= 8 {
			pat = []int{40 + r.Intn(400)}
		}
		run("one-chunk", c13In{Kind: 0, Honest: true, Pattern: pat, Pattern2: []int{1 << 20}, WOps: ops, ROps: rops})
	}

	// interleaved so that the Coq shards are of similar weight
	for i := 0; i < e.N*8/10; i++ {
		switch i % 8 {
		case 0, 3, 6:
			run("honest", c13GenHonest(r))
		case 7:
			run("mixed-ops", c13GenMixed(r))
		default:
			run("hostile", c13GenHostile(r))
		}
	}

	// the protobuf wire format of the protocol messages against model/ProtoWire.v
	for k := 0; k < 6; k++ {
		zero := &c13WMsg{K: k}
		if k != 4 {
			for _, isInt := range c13WireShape[k] {
				zero.Vs = append(zero.Vs, c13FV{I: isInt})
			}
		}
		run("wire-marshal", c13In{Kind: 5, WM: zero})
		run("wire-unmarshal", c13In{Kind: 6, WK: k, Stream: []byte{}})
	}
	for i := 0; i < e.N*2/5; i++ {
		run("wire-marshal", c13In{Kind: 5, WM: c13GenWMsg(r)})
	}
	for i := 0; i < e.N*3/4; i++ {
		k := r.Intn(6)
		run("wire-unmarshal", c13In{Kind: 6, WK: k, Stream: c13WireHostile(r, k)})
	}

	// frame sizes around the varint boundaries of the length field and around the 8 MiB limit
	const limitInner = 8*1024*1024 - 5 // 0a ++ 4-byte varint ++ payload = 8 MiB exactly
	sizes := []int{0, 2, 3, 100, 127, 128, 129, 130, 131, 16383, 16384, 16385, 16386, 16387, 16388, 70000}
	near := []int{limitInner - 1, limitInner, limitInner + 1}
	if e.Tier == "thorough" {
		sizes = append(sizes, 2097151, 2097152, 2097153, 2097154, 2097155, 2097156, 2097157, 4000000)
		near = append(near, limitInner-2, limitInner+2, limitInner+3, 9000000, 16*1024*1024)
	} else if e.Tier == "search" {
		near = append(near, limitInner-2, limitInner+2)
	}
	for _, s := range sizes {
		run("sizes", c13In{Kind: 1, N: s, Pattern: []int{1 + r.Intn(9), 300}})
	}
	for _, s := range near {
		run("near-limit", c13In{Kind: 1, N: s, Pattern: []int{65536, 1, 4096 + r.Intn(5000)}})
	}

	// end to end through two real services
	k := 12
	if e.Tier == "thorough" {
		k = 60
	}
	run("e2e", c13In{Kind: 2})
	run("e2e", c13In{Kind: 2, E: &c13Herr{Kind: 0, Text: []byte("plain failure")}})
	run("e2e", c13In{Kind: 2, E: &c13Herr{Kind: 1, S: &c13Status{Code: 13, Msg: []byte("test error")}}})
	for code := int32(1); code <= 16; code++ {
		run("e2e", c13In{Kind: 2, E: &c13Herr{Kind: 1, S: &c13Status{Code: code, Msg: c13Text(r)}}})
	}
	for i := 0; i < k; i++ {
		run("e2e", c13In{Kind: 2, E: c13GenHerr(r)})
	}
	for cl, n := range c13Inconclusive {
		t.Logf("c13: class %s: %d case(s) inconclusive (synchronisation deadline), dropped", cl, n)
	}
}
