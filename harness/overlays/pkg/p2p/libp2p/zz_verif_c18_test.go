package libp2p

import (
	"crypto/ecdsa"
	"encoding/json"
	"io"
	"math/big"
	"testing"

	"github.com/ethereum/go-ethereum/crypto"
	libp2pcrypto "github.com/libp2p/go-libp2p/core/crypto"
	"github.com/libp2p/go-libp2p/core/peer"
	mockkeysigner "github.com/primevprotocol/mev-commit/pkg/keysigner/mock"
	"github.com/primevprotocol/mev-commit/pkg/p2p"
	"github.com/primevprotocol/mev-commit/pkg/util"
)

type c18In struct {
	D    string // private scalar, decimal
	Full bool   // also start a real Service with this key
}

type c18Obs struct {
	Pad         []byte // util.PadKeyTo32Bytes(d)
	UnmarshalOK bool   // libp2p accepted the padded key
	Comp        []byte // compressed public key the transport library derives
	Pid         []byte // peer id bytes derived by the transport library
	X, Y        string // crypto.DecompressPubkey(Comp)
	AddrPid     []byte // GetEthAddressFromPeerID(Pid); nil on error
	AddrSign    []byte // crypto.PubkeyToAddress of the go-ethereum key (what signatures recover to)
	StartOK     bool   // libp2p.New succeeded (Full only; true otherwise)
	HostPid     []byte // HostID() of the started service (Full only)
	HostAddr    []byte // GetEthAddressFromPeerID(HostID()) (Full only)
}

func c18Key(d *big.Int) *ecdsa.PrivateKey {
	priv := new(ecdsa.PrivateKey)
	priv.PublicKey.Curve = crypto.S256()
	priv.D = new(big.Int).Set(d)
	priv.PublicKey.X, priv.PublicKey.Y = crypto.S256().ScalarBaseMult(d.Bytes())
	return priv
}

func c18Run(in c18In) (obs c18Obs) {
	d, _ := new(big.Int).SetString(in.D, 10)
	priv := c18Key(d)
	obs.StartOK = true
	obs.AddrSign = crypto.PubkeyToAddress(priv.PublicKey).Bytes()
	obs.Pad = util.PadKeyTo32Bytes(priv.D)
	k, err := libp2pcrypto.UnmarshalSecp256k1PrivateKey(obs.Pad)
	if err == nil {
		obs.UnmarshalOK = true
		obs.Comp, _ = k.GetPublic().Raw()
		pid, err := peer.IDFromPrivateKey(k)
		if err == nil {
			obs.Pid = []byte(pid)
			if a, err := GetEthAddressFromPeerID(pid); err == nil {
				obs.AddrPid = a.Bytes()
			}
		}
		if pk, err := crypto.DecompressPubkey(obs.Comp); err == nil {
			obs.X, obs.Y = pk.X.String(), pk.Y.String()
		}
	}
	if obs.X == "" {
		obs.X, obs.Y = "0", "0"
	}
	if in.Full {
		ks := mockkeysigner.NewMockKeySigner(priv, crypto.PubkeyToAddress(priv.PublicKey))
		svc, err := New(&Options{
			KeySigner:  ks,
			Secret:     "test",
			ListenPort: 0,
			ListenAddr: "127.0.0.1",
			PeerType:   p2p.PeerTypeBidder,
			Logger:     util.NewTestLogger(io.Discard),
		})
		if err != nil {
			obs.StartOK = false
		} else {
			obs.HostPid = []byte(svc.host.ID())
			if a, err := GetEthAddressFromPeerID(svc.host.ID()); err == nil {
				obs.HostAddr = a.Bytes()
			}
			_ = svc.Close()
		}
	}
	return obs
}

func TestVerifC18(t *testing.T) {
	e := vfOpen(t, 1)
	defer e.Close()
	run := func(class string, in c18In) {
		obs := c18Run(in)
		d, _ := new(big.Int).SetString(in.D, 10)
		x, _ := new(big.Int).SetString(obs.X, 10)
		y, _ := new(big.Int).SetString(obs.Y, 10)
		e.Emit(class, in, obs, func(id int) string {
			return coqRecord("id", coqN(uint64(id)), "d", coqBigN(d), "pad_obs", coqBytes(obs.Pad),
				"unmarshal_ok", coqBool(obs.UnmarshalOK), "comp", coqBytes(obs.Comp), "pid_obs", coqBytes(obs.Pid),
				"px", coqBigN(x), "py", coqBigN(y), "addr_pid_obs", coqOptBytes(obs.AddrPid),
				"addr_sign_obs", coqBytes(obs.AddrSign), "full", coqBool(in.Full), "start_ok", coqBool(obs.StartOK),
				"host_pid", coqBytes(obs.HostPid), "host_addr", coqOptBytes(obs.HostAddr))
		})
	}
	for _, raw := range e.Replay {
		var in c18In
		if err := json.Unmarshal(raw, &in); err != nil {
			t.Fatalf("bad replay input: %v", err)
		}
		run("replay", in)
	}
	if e.OnlyReplay() {
		return
	}
	n := crypto.S256().Params().N
	one := big.NewInt(1)
	run("edge", c18In{"1", true})
	run("edge", c18In{new(big.Int).Sub(n, one).String(), true})
	run("edge", c18In{"2", false})
	run("edge", c18In{new(big.Int).Sub(n, big.NewInt(2)).String(), false})
	// every count k of leading zero bytes: scalars with exactly k leading zero bytes
	per := 2
	if e.Tier == "thorough" {
		per = 20
	}
	for k := 0; k <= 31; k++ {
		for j := 0; j < per; j++ {
			b := make([]byte, 32-k)
			e.rng.Read(b)
			if b[0] == 0 {
				b[0] = 1
			}
			d := new(big.Int).SetBytes(b)
			if d.Cmp(n) >= 0 {
				d.Sub(d, n)
				if d.Sign() == 0 {
					d.SetInt64(1)
				}
				// may have changed the count of leading zeros; still a valid key
			}
			class := "leading-zeros"
			run(class, c18In{d.String(), j == 0})
		}
	}
	// keys whose PUBLIC coordinates have leading zero bytes (about 1 in 128 keys): found by search
	// from a seed-dependent start, so that address derivation from short coordinates is exercised
	{
		wantX, wantY := 3, 3
		if e.Tier == "thorough" {
			wantX, wantY = 20, 20
		}
		start := new(big.Int).SetUint64(e.rng.Uint64())
		start.Lsh(start, 130)
		for i := int64(1); (wantX > 0 || wantY > 0) && i < 200000; i++ {
			d := new(big.Int).Add(start, big.NewInt(i))
			x, y := crypto.S256().ScalarBaseMult(d.Bytes())
			zx, zy := len(x.Bytes()) < 32, len(y.Bytes()) < 32
			if (zx && wantX > 0) || (zy && wantY > 0) {
				if zx {
					wantX--
				}
				if zy {
					wantY--
				}
				run("pub-leading-zero", c18In{d.String(), wantX+wantY == 0})
			}
		}
	}
	// exact powers of 256 and their predecessors (boundary of each byte length)
	for k := 1; k <= 31; k++ {
		p := new(big.Int).Lsh(one, uint(8*k))
		run("byte-boundary", c18In{p.String(), false})
		run("byte-boundary", c18In{new(big.Int).Sub(p, one).String(), false})
	}
	for i := 0; i < e.N; i++ {
		b := make([]byte, 32)
		e.rng.Read(b)
		d := new(big.Int).SetBytes(b)
		d.Mod(d, new(big.Int).Sub(n, one))
		d.Add(d, one)
		run("random", c18In{d.String(), false})
	}
}
