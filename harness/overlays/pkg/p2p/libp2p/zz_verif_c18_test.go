package libp2p

import (
	"crypto/ecdsa"
	"encoding/json"
	"io"
	"math/big"
	"os"
	"path/filepath"
	"testing"

	"github.com/ethereum/go-ethereum/accounts/keystore"
	"github.com/ethereum/go-ethereum/crypto"
	"github.com/primevprotocol/mev-commit/pkg/keysigner"
	libp2pcrypto "github.com/libp2p/go-libp2p/core/crypto"
	"github.com/libp2p/go-libp2p/core/peer"
	mockkeysigner "github.com/primevprotocol/mev-commit/pkg/keysigner/mock"
	"github.com/primevprotocol/mev-commit/pkg/p2p"
	"github.com/primevprotocol/mev-commit/pkg/util"
)

type c18In struct {
	D    string // private scalar, decimal
	Full bool   // also start a real Service with this key
	// which key signer feeds libp2p.New in the Full run: 0 = mock holding the key, 1 = the repository's
	// private-key-file signer, 2 = the repository's keystore signer (both load the key from disk)
	Signer int
}

type c18Obs struct {
	Pad         []byte // util.PadKeyTo32Bytes(d)
	UnmarshalOK bool   // libp2p accepted the padded key
	Comp        []byte // compressed public key the transport library derives
	Pid         []byte // peer id bytes derived by the transport library
	X, Y        string // crypto.DecompressPubkey(Comp)
	AddrPid     []byte // GetEthAddressFromPeerID(Pid); nil on error
	AddrSign    []byte // crypto.PubkeyToAddress of the go-ethereum key (what signatures recover to)
	AddrRecovered []byte // address recovered from a signature the key signer made (what peers see in handshakes)
	StartOK     bool   // libp2p.New succeeded (Full only; true otherwise)
	HostPid     []byte // HostID() of the started service (Full only)
	HostAddr    []byte // GetEthAddressFromPeerID(HostID()) (Full only)
}

func c18Key(d *big.Int) *ecdsa.PrivateKey {
	priv := new(ecdsa.PrivateKey)
	priv.PublicKey.Curve = crypto.S256()
	priv.D = new(big.Int).Set(d)
	priv.PublicKey.X, priv.PublicKey.Y = crypto.S256().ScalarBaseMult(d.Bytes())
	return priv
}

func c18Run(in c18In) (obs c18Obs) {
	d, _ := new(big.Int).SetString(in.D, 10)
	priv := c18Key(d)
	obs.StartOK = true
	obs.AddrSign = crypto.PubkeyToAddress(priv.PublicKey).Bytes()
	obs.Pad = util.PadKeyTo32Bytes(priv.D)
	k, err := libp2pcrypto.UnmarshalSecp256k1PrivateKey(obs.Pad)
	if err == nil {
		obs.UnmarshalOK = true
		obs.Comp, _ = k.GetPublic().Raw()
		pid, err := peer.IDFromPrivateKey(k)
		if err == nil {
			obs.Pid = []byte(pid)
			if a, err := GetEthAddressFromPeerID(pid); err == nil {
				obs.AddrPid = a.Bytes()
			}
		}
		if pk, err := crypto.DecompressPubkey(obs.Comp); err == nil {
			obs.X, obs.Y = pk.X.String(), pk.Y.String()
		}
	}
	if obs.X == "" {
		obs.X, obs.Y = "0", "0"
	}
	obs.AddrRecovered = obs.AddrSign
	if in.Full {
		var ks keysigner.KeySigner = mockkeysigner.NewMockKeySigner(priv, crypto.PubkeyToAddress(priv.PublicKey))
		if in.Signer != 0 {
			dir, err := os.MkdirTemp("", "c18ks")
			if err != nil {
				obs.StartOK = false
				return obs
			}
			defer os.RemoveAll(dir)
			switch in.Signer {
			case 1:
				path := filepath.Join(dir, "key")
				if err := crypto.SaveECDSA(path, priv); err != nil {
					obs.StartOK = false
					return obs
				}
				pks, err := keysigner.NewPrivateKeySigner(path)
				if err != nil {
					obs.StartOK = false
					return obs
				}
				ks = pks
			case 2:
				store := keystore.NewKeyStore(dir, keystore.LightScryptN, keystore.LightScryptP)
				if _, err := store.ImportECDSA(priv, "pw"); err != nil {
					obs.StartOK = false
					return obs
				}
				kss, err := keysigner.NewKeystoreSigner(dir, "pw")
				if err != nil {
					obs.StartOK = false
					return obs
				}
				ks = kss
			}
			// what the rest of the node signs with, and what it says its address is
			obs.AddrSign = ks.GetAddress().Bytes()
			h := crypto.Keccak256([]byte("c18 probe"))
			if sig, err := ks.SignHash(h); err == nil {
				if pub, err := crypto.SigToPub(h, sig); err == nil {
					obs.AddrRecovered = crypto.PubkeyToAddress(*pub).Bytes()
				} else {
					obs.AddrRecovered = nil
				}
			} else {
				obs.AddrRecovered = nil
			}
		}
		svc, err := New(&Options{
			KeySigner:  ks,
			Secret:     "test",
			ListenPort: 0,
			ListenAddr: "127.0.0.1",
			PeerType:   p2p.PeerTypeBidder,
			Logger:     util.NewTestLogger(io.Discard),
		})
		if err != nil {
			obs.StartOK = false
		} else {
			obs.HostPid = []byte(svc.host.ID())
			if a, err := GetEthAddressFromPeerID(svc.host.ID()); err == nil {
				obs.HostAddr = a.Bytes()
			}
			_ = svc.Close()
		}
	}
	return obs
}

func TestVerifC18(t *testing.T) {
	e := vfOpen(t, 1)
	defer e.Close()
	run := func(class string, in c18In) {
		obs := c18Run(in)
		d, _ := new(big.Int).SetString(in.D, 10)
		x, _ := new(big.Int).SetString(obs.X, 10)
		y, _ := new(big.Int).SetString(obs.Y, 10)
		e.Emit(class, in, obs, func(id int) string {
			return coqRecord("id", coqN(uint64(id)), "d", coqBigN(d), "pad_obs", coqBytes(obs.Pad),
				"unmarshal_ok", coqBool(obs.UnmarshalOK), "comp", coqBytes(obs.Comp), "pid_obs", coqBytes(obs.Pid),
				"px", coqBigN(x), "py", coqBigN(y), "addr_pid_obs", coqOptBytes(obs.AddrPid),
				"addr_sign_obs", coqBytes(obs.AddrSign), "addr_recovered", coqBytes(obs.AddrRecovered), "full", coqBool(in.Full), "start_ok", coqBool(obs.StartOK),
				"host_pid", coqBytes(obs.HostPid), "host_addr", coqOptBytes(obs.HostAddr))
		})
	}
	for _, raw := range e.Replay {
		var in c18In
		if err := json.Unmarshal(raw, &in); err != nil {
			t.Fatalf("bad replay input: %v", err)
		}
		run("replay", in)
	}
	if e.OnlyReplay() {
		return
	}
	n := crypto.S256().Params().N
	one := big.NewInt(1)
	run("edge", c18In{D: "1", Full: true})
	run("edge", c18In{D: new(big.Int).Sub(n, one).String(), Full: true})
	run("edge", c18In{D: "2"})
	run("edge", c18In{D: new(big.Int).Sub(n, big.NewInt(2)).String()})
	// every count k of leading zero bytes: scalars with exactly k leading zero bytes
	per := 2
	if e.Tier == "thorough" {
		per = 20
	}
	for k := 0; k <= 31; k++ {
		for j := 0; j < per; j++ {
			b := make([]byte, 32-k)
			e.rng.Read(b)
			if b[0] == 0 {
				b[0] = 1
			}
			d := new(big.Int).SetBytes(b)
			if d.Cmp(n) >= 0 {
				d.Sub(d, n)
				if d.Sign() == 0 {
					d.SetInt64(1)
				}
				// may have changed the count of leading zeros; still a valid key
			}
			class := "leading-zeros"
			run(class, c18In{D: d.String(), Full: j == 0})
			// the same key through the repository's own key signers (loaded from disk), every 4th count in quick
			if j == 0 && (e.Tier == "thorough" || k%4 == 1 || k == 31) {
				run("signer-file", c18In{D: d.String(), Full: true, Signer: 1})
				run("signer-keystore", c18In{D: d.String(), Full: true, Signer: 2})
			}
		}
	}
	// keys whose PUBLIC coordinates have leading zero bytes (about 1 in 128 keys): found by search
	// from a seed-dependent start, so that address derivation from short coordinates is exercised
	{
		wantX, wantY := 3, 3
		if e.Tier == "thorough" {
			wantX, wantY = 20, 20
		}
		start := new(big.Int).SetUint64(e.rng.Uint64())
		start.Lsh(start, 130)
		for i := int64(1); (wantX > 0 || wantY > 0) && i < 200000; i++ {
			d := new(big.Int).Add(start, big.NewInt(i))
			x, y := crypto.S256().ScalarBaseMult(d.Bytes())
			zx, zy := len(x.Bytes()) < 32, len(y.Bytes()) < 32
			if (zx && wantX > 0) || (zy && wantY > 0) {
				if zx {
					wantX--
				}
				if zy {
					wantY--
				}
				run("pub-leading-zero", c18In{D: d.String(), Full: wantX+wantY == 0})
			}
		}
	}
	// exact powers of 256 and their predecessors (boundary of each byte length)
	for k := 1; k <= 31; k++ {
		p := new(big.Int).Lsh(one, uint(8*k))
		run("byte-boundary", c18In{D: p.String()})
		run("byte-boundary", c18In{D: new(big.Int).Sub(p, one).String()})
	}
	for i := 0; i < e.N; i++ {
		b := make([]byte, 32)
		e.rng.Read(b)
		d := new(big.Int).SetBytes(b)
		d.Mod(d, new(big.Int).Sub(n, one))
		d.Add(d, one)
		run("random", c18In{D: d.String()})
	}
}
