package libp2p

import (
	"context"
	"crypto/ecdsa"
	"encoding/json"
	"fmt"
	"io"
	"math/big"
	"os"
	"path/filepath"
	"strings"
	"sync"
	"sync/atomic"
	"testing"
	"time"

	"github.com/ethereum/go-ethereum/accounts/keystore"
	"github.com/ethereum/go-ethereum/common"
	"github.com/ethereum/go-ethereum/crypto"
	libp2pcrypto "github.com/libp2p/go-libp2p/core/crypto"
	"github.com/libp2p/go-libp2p/core/peer"
	handshakepb "github.com/primevprotocol/mev-commit/gen/go/handshake/v1"
	"github.com/primevprotocol/mev-commit/pkg/keysigner"
	mockkeysigner "github.com/primevprotocol/mev-commit/pkg/keysigner/mock"
	"github.com/primevprotocol/mev-commit/pkg/p2p"
	"github.com/primevprotocol/mev-commit/pkg/p2p/libp2p/internal/handshake"
	"github.com/primevprotocol/mev-commit/pkg/signer"
	"github.com/primevprotocol/mev-commit/pkg/signer/preconfsigner"
	"github.com/primevprotocol/mev-commit/pkg/util"
	"google.golang.org/protobuf/proto"
)

type c18In struct {
	D    string // private scalar, decimal
	Full bool   // also start a real Service with this key
	// the key signers observed for every case are the mock holding the key (0) and the repository's private-key-file
	// signer (1, key loaded from disk); Signer = 2 adds the repository's keystore signer (slow: scrypt).  Signer also
	// says which of them feeds libp2p.New in the Full run.
	Signer int
	// the configured handshake secret (Options.Secret / the passcode of the handshake service); absent = "test"
	Secret *string `json:",omitempty"`
	// Conc > 0: additionally derive the addresses of Conc neighbouring keys (D, D+1, ...) from their peer ids from many
	// goroutines at once and compare with the sequential answers (an address function must not share state)
	Conc int `json:",omitempty"`
}

func (in c18In) secret() string {
	if in.Secret == nil {
		return "test"
	}
	return *in.Secret
}

type c18Signer struct {
	Kind   int
	Err    string // setting the signer up failed (then nothing else is filled in)
	Priv   string // GetPrivateKey().D, decimal
	Addr   []byte // GetAddress()
	Tr     []byte // GetEthAddressFromPeerID of the identity built from GetPrivateKey() the way libp2p.New does; nil: none
	Rec    []byte // pkg/signer Verify on (Sig, PeerType+Token) of the handshake request the node ACTUALLY SENT; nil: failed / nothing sent
	RecRaw []byte // pkg/signer Verify on SignHash(Keccak256(role+secret)) (what handshake.createSignature signs); nil: failed
	SentRole, SentToken string // the request as sent (diagnosis)
	Hs     []byte // address a real peer's handshake.Service.Handle enrolled this node under; nil: refused
	Bid    []byte // preconfsigner.VerifyBid(ConstructSignedBid(...)); nil: failed
	Commit []byte // preconfsigner.VerifyPreConfirmation(ConstructPreConfirmation(bid)); nil: failed
	Note   string
}

type c18Obs struct {
	Pad         []byte // util.PadKeyTo32Bytes(d)
	UnmarshalOK bool   // libp2p accepted the padded key
	Comp        []byte // compressed public key the transport library derives
	Pid         []byte // peer id bytes derived by the transport library
	X, Y        string // crypto.DecompressPubkey(Comp)
	QX, QY      string // ScalarBaseMult(d) by go-ethereum's curve
	AddrPid     []byte // GetEthAddressFromPeerID(Pid); nil on error
	AddrPub     []byte // crypto.PubkeyToAddress of (QX, QY)
	Signers     []c18Signer
	StartOK     bool   // libp2p.New succeeded (Full only; true otherwise)
	HostPid     []byte // HostID() of the started service (Full only)
	HostAddr    []byte // GetEthAddressFromPeerID(HostID()) (Full only)
	// environment failures (temp dir, writing the key file, listening, a stalled machine): what they prevented is not
	// observed - the signer is left out, the Full part is dropped (FullDone false), or the case is dropped
	Env      []string
	FullDone bool
	// concurrent derivations (Conc > 0 in the input): how many were made and how many differed from the sequential answer
	ConcN, ConcWrong int
}

func c18Key(d *big.Int) *ecdsa.PrivateKey {
	priv := new(ecdsa.PrivateKey)
	priv.PublicKey.Curve = crypto.S256()
	priv.D = new(big.Int).Set(d)
	priv.PublicKey.X, priv.PublicKey.Y = crypto.S256().ScalarBaseMult(d.Bytes())
	return priv
}

// an in-memory p2p.Stream pair whose reads honour the context (a refused handshake must not hang the other side)
type c18Stream struct {
	in, out chan []byte
	first   chan []byte // copy of the first message written (capacity 1), if not nil
}

func (s *c18Stream) ReadMsg(ctx context.Context, m proto.Message) error {
	select {
	case b := <-s.in:
		return proto.Unmarshal(b, m)
	case <-ctx.Done():
		return ctx.Err()
	}
}
func (s *c18Stream) WriteMsg(ctx context.Context, m proto.Message) error {
	b, err := proto.Marshal(m)
	if err != nil {
		return err
	}
	if s.first != nil {
		select {
		case s.first <- append([]byte(nil), b...):
		default:
		}
	}
	select {
	case s.out <- b:
		return nil
	case <-ctx.Done():
		return ctx.Err()
	}
}
func (s *c18Stream) Close() error { return nil }
func (s *c18Stream) Reset() error { return nil }

type c18Reg struct{}

func (c18Reg) CheckProviderRegistered(context.Context, common.Address) bool { return true }

var c18PeerOnce sync.Once
var c18PeerKey *ecdsa.PrivateKey

// c18Handshake runs the node's side (handshake.Service built over ks exactly as libp2p.New builds it: real signer,
// real GetEthAddressFromPeerID) against a real peer; nodePid is the node's transport identity.  Returns the address
// the PEER enrolled the node under (its verifyReq: signature recovery + address-binding check), nil if it refused.
func c18Handshake(ks keysigner.KeySigner, nodePid peer.ID, secret string, slow int) ([]byte, *handshakepb.HandshakeReq, string) {
	c18PeerOnce.Do(func() { c18PeerKey = c18Key(big.NewInt(0x5eed5eed)) })
	pk, err := libp2pcrypto.UnmarshalSecp256k1PrivateKey(util.PadKeyTo32Bytes(c18PeerKey.D))
	if err != nil {
		return nil, nil, "peer key: " + err.Error()
	}
	peerPid, err := peer.IDFromPrivateKey(pk)
	if err != nil {
		return nil, nil, "peer id: " + err.Error()
	}
	node, err := handshake.New(ks, p2p.PeerTypeBidder, secret, signer.New(), c18Reg{}, GetEthAddressFromPeerID)
	if err != nil {
		return nil, nil, "node handshake service: " + err.Error()
	}
	other, err := handshake.New(mockkeysigner.NewMockKeySigner(c18PeerKey, crypto.PubkeyToAddress(c18PeerKey.PublicKey)),
		p2p.PeerTypeProvider, secret, signer.New(), c18Reg{}, GetEthAddressFromPeerID)
	if err != nil {
		return nil, nil, "peer handshake service: " + err.Error()
	}
	ctx, cancel := context.WithTimeout(context.Background(), time.Duration(slow)*20*time.Second)
	defer cancel()
	ab, ba := make(chan []byte, 8), make(chan []byte, 8)
	nodeStream, peerStream := &c18Stream{in: ba, out: ab, first: make(chan []byte, 1)}, &c18Stream{in: ab, out: ba}
	type res struct {
		p   *p2p.Peer
		err error
	}
	nodeRes, peerRes := make(chan res, 1), make(chan res, 1)
	go func() {
		p, err := node.Handshake(ctx, peerPid, nodeStream)
		if err != nil {
			cancel()
		}
		nodeRes <- res{p, err}
	}()
	go func() {
		p, err := other.Handle(ctx, peerStream, nodePid)
		if err != nil {
			cancel()
		}
		peerRes <- res{p, err}
	}()
	pr, nr := <-peerRes, <-nodeRes
	// the request the node put on the wire
	var sent *handshakepb.HandshakeReq
	select {
	case b := <-nodeStream.first:
		r := new(handshakepb.HandshakeReq)
		if proto.Unmarshal(b, r) == nil {
			sent = r
		}
	default:
	}
	if pr.err != nil {
		return nil, sent, "peer refused: " + pr.err.Error()
	}
	note := ""
	if nr.err != nil {
		note = "node side: " + nr.err.Error()
	}
	return pr.p.EthAddress.Bytes(), sent, note
}

func c18ObserveSigner(kind int, ks keysigner.KeySigner, secret string, slow int) (so c18Signer) {
	so.Kind = kind
	so.Addr = ks.GetAddress().Bytes()
	so.Priv = "0"
	var nodePid peer.ID
	// the transport identity, built the way libp2p.New builds it
	if pk, err := ks.GetPrivateKey(); err == nil && pk != nil && pk.D != nil {
		so.Priv = pk.D.String()
		if k, err := libp2pcrypto.UnmarshalSecp256k1PrivateKey(util.PadKeyTo32Bytes(pk.D)); err == nil {
			if pid, err := peer.IDFromPrivateKey(k); err == nil {
				nodePid = pid
				if a, err := GetEthAddressFromPeerID(pid); err == nil {
					so.Tr = a.Bytes()
				}
			}
		}
		ks.ZeroPrivateKey(pk)
	}
	// the handshake request signature as handshake.createSignature makes it: Keccak256(peerType + passcode), SignHash
	data := []byte(p2p.PeerTypeBidder.String() + secret)
	if sig, err := ks.SignHash(crypto.Keccak256Hash(data).Bytes()); err == nil {
		if ok, a, err := signer.New().Verify(sig, data); err == nil && ok {
			so.RecRaw = a.Bytes()
		}
	}
	// ... and the real thing: the node's handshake service against a real peer; what the peer recovers (pkg/signer
	// Verify, as its verifyReq does) from the request AS SENT - signature over PeerType+Token of that request
	if nodePid != "" {
		var sent *handshakepb.HandshakeReq
		so.Hs, sent, so.Note = c18Handshake(ks, nodePid, secret, slow)
		if sent != nil {
			so.SentRole, so.SentToken = sent.PeerType, sent.Token
			if ok, a, err := signer.New().Verify(sent.Sig, []byte(sent.PeerType+sent.Token)); err == nil && ok {
				so.Rec = a.Bytes()
			}
		}
	}
	// bids and commitments
	ps := preconfsigner.NewSigner(ks)
	if bid, err := ps.ConstructSignedBid("0xc18c18c18c18c18c18c18c18c18c18c18c18c18c18c18c18c18c18c18c18c18c1", "1000000", 7, 10, 20); err == nil {
		if a, err := ps.VerifyBid(bid); err == nil && a != nil {
			so.Bid = a.Bytes()
		}
		if pc, err := ps.ConstructPreConfirmation(bid); err == nil {
			if a, err := ps.VerifyPreConfirmation(pc); err == nil && a != nil {
				so.Commit = a.Bytes()
			}
		}
	}
	return so
}


// c18Concurrent: addresses of n keys d, d+1, ... derived sequentially first, then from 8 goroutines x 40 rounds at once
// through GetEthAddressFromPeerID and GetEthAddressFromPubKey; returns (derivations made, derivations that differed or
// panicked)
func c18Concurrent(d *big.Int, n int) (int, int) {
	type item struct {
		pid  peer.ID
		pub  *ecdsa.PublicKey
		want common.Address
	}
	order := crypto.S256().Params().N
	var items []item
	for i := 0; len(items) < n && i < 4*n; i++ {
		di := new(big.Int).Add(d, big.NewInt(int64(i)))
		di.Mod(di, order)
		if di.Sign() == 0 {
			continue
		}
		k := c18Key(di)
		lk, err := libp2pcrypto.UnmarshalSecp256k1PrivateKey(util.PadKeyTo32Bytes(k.D))
		if err != nil {
			continue
		}
		pid, err := peer.IDFromPrivateKey(lk)
		if err != nil {
			continue
		}
		items = append(items, item{pid, &k.PublicKey, crypto.PubkeyToAddress(k.PublicKey)})
	}
	var made, wrong int64
	var wg sync.WaitGroup
	for g := 0; g < 8; g++ {
		wg.Add(1)
		go func(g int) {
			defer wg.Done()
			for r := 0; r < 40; r++ {
				for j := range items {
					it := items[(j+g*3+r)%len(items)]
					func() {
						defer func() {
							if recover() != nil {
								atomic.AddInt64(&wrong, 1)
							}
						}()
						atomic.AddInt64(&made, 2)
						if a, err := GetEthAddressFromPeerID(it.pid); err != nil || a != it.want {
							atomic.AddInt64(&wrong, 1)
						}
						if a := GetEthAddressFromPubKey(it.pub); a != it.want {
							atomic.AddInt64(&wrong, 1)
						}
					}()
				}
			}
		}(g)
	}
	wg.Wait()
	return int(made), int(wrong)
}

func c18Run(in c18In, slow int) (obs c18Obs) {
	d, _ := new(big.Int).SetString(in.D, 10)
	priv := c18Key(d)
	obs.StartOK = true
	obs.QX, obs.QY = priv.PublicKey.X.String(), priv.PublicKey.Y.String()
	obs.AddrPub = crypto.PubkeyToAddress(priv.PublicKey).Bytes()
	obs.Pad = util.PadKeyTo32Bytes(priv.D)
	k, err := libp2pcrypto.UnmarshalSecp256k1PrivateKey(obs.Pad)
	if err == nil {
		obs.UnmarshalOK = true
		obs.Comp, _ = k.GetPublic().Raw()
		pid, err := peer.IDFromPrivateKey(k)
		if err == nil {
			obs.Pid = []byte(pid)
			if a, err := GetEthAddressFromPeerID(pid); err == nil {
				obs.AddrPid = a.Bytes()
			}
		}
		if pk, err := crypto.DecompressPubkey(obs.Comp); err == nil {
			obs.X, obs.Y = pk.X.String(), pk.Y.String()
		}
	}
	if obs.X == "" {
		obs.X, obs.Y = "0", "0"
	}
	// the key signers that are given this key
	kinds := []int{0, 1}
	if in.Signer == 2 {
		kinds = append(kinds, 2)
	}
	sgn := map[int]keysigner.KeySigner{}
	dir, err := os.MkdirTemp("", "c18ks")
	if err != nil {
		obs.Env = append(obs.Env, "temp dir: "+err.Error())
		return obs
	}
	defer os.RemoveAll(dir)
	for _, kind := range kinds {
		var ks keysigner.KeySigner
		var serr error // failure of the code under test (loading the key it was given)
		var eerr error // failure of the test's own preparation
		switch kind {
		case 0:
			// every key signer gets its own copy of the key (the keystore signer wipes what it hands out)
			ks = mockkeysigner.NewMockKeySigner(c18Key(d), crypto.PubkeyToAddress(priv.PublicKey))
		case 1:
			path := filepath.Join(dir, "key")
			if eerr = crypto.SaveECDSA(path, priv); eerr == nil {
				if ks, serr = keysigner.NewPrivateKeySigner(path); serr != nil {
					ks, serr = keysigner.NewPrivateKeySigner(path)
				}
			}
		case 2:
			sdir := filepath.Join(dir, "keystore")
			store := keystore.NewKeyStore(sdir, keystore.LightScryptN, keystore.LightScryptP)
			if _, eerr = store.ImportECDSA(c18Key(d), "pw"); eerr == nil {
				if ks, serr = keysigner.NewKeystoreSigner(sdir, "pw"); serr != nil {
					ks, serr = keysigner.NewKeystoreSigner(sdir, "pw")
				}
			}
		}
		if eerr != nil {
			obs.Env = append(obs.Env, fmt.Sprintf("signer %d preparation: %v", kind, eerr))
			continue
		}
		if serr != nil || ks == nil {
			obs.Signers = append(obs.Signers, c18Signer{Kind: kind, Err: fmt.Sprint(serr), Priv: "0"})
			continue
		}
		so := c18ObserveSigner(kind, ks, in.secret(), slow)
		for retry := 0; retry < 2 && so.Hs == nil && strings.Contains(so.Note, "deadline exceeded"); retry++ {
			so = c18ObserveSigner(kind, ks, in.secret(), slow*2)
		}
		if so.Hs == nil && strings.Contains(so.Note, "deadline exceeded") {
			obs.Env = append(obs.Env, fmt.Sprintf("signer %d: handshake exchange stalled: %s", kind, so.Note))
			continue
		}
		sgn[kind] = ks
		obs.Signers = append(obs.Signers, so)
	}
	if in.Full {
		ks := sgn[in.Signer]
		if ks == nil {
			// the signer could not be prepared or observed: nothing to start
			return obs
		}
		var svc *Service
		var err error
		for attempt := 0; attempt < 3; attempt++ {
			svc, err = New(&Options{
				KeySigner:  ks,
				Secret:     in.secret(),
				ListenPort: 0,
				ListenAddr: "127.0.0.1",
				PeerType:   p2p.PeerTypeBidder,
				Logger:     util.NewTestLogger(io.Discard),
			})
			if err == nil {
				break
			}
		}
		if err != nil {
			// attributed to the code under test only if it is about the key; listening, resources etc. are environment
			msg := err.Error()
			if strings.Contains(msg, "priv key") || strings.Contains(msg, "private key") || strings.Contains(msg, "secp256k1") || strings.Contains(msg, "key") {
				obs.FullDone = true
				obs.StartOK = false
			} else {
				obs.Env = append(obs.Env, "libp2p.New: "+msg)
			}
		} else {
			obs.FullDone = true
			obs.HostPid = []byte(svc.host.ID())
			if a, err := GetEthAddressFromPeerID(svc.host.ID()); err == nil {
				obs.HostAddr = a.Bytes()
			}
			_ = svc.Close()
		}
	}
	if in.Conc > 0 {
		obs.ConcN, obs.ConcWrong = c18Concurrent(d, in.Conc)
	}
	return obs
}

func TestVerifC18(t *testing.T) {
	e := vfOpen(t, 1)
	defer e.Close()
	inconclusive := 0
	defer func() {
		if inconclusive > 0 {
			t.Logf("c18: %d cases inconclusive (environment failures), dropped", inconclusive)
		}
	}()
	run := func(class string, in c18In) {
		if in.Signer < 0 || in.Signer > 2 {
			in.Signer = 0
		}
		obs := c18Run(in, e.Slow)
		if len(obs.Env) > 0 {
			t.Logf("c18: environment failure(s) on %s: %v", in.D, obs.Env)
		}
		if len(obs.Signers) == 0 {
			inconclusive++ // nothing could be observed: dropped
			return
		}
		big10 := func(s string) *big.Int {
			v, ok := new(big.Int).SetString(s, 10)
			if !ok {
				return new(big.Int)
			}
			return v
		}
		var sg []string
		for _, so := range obs.Signers {
			sg = append(sg, coqRecord("s_kind", coqN(uint64(so.Kind)), "s_priv", coqBigN(big10(so.Priv)), "s_addr", coqBytes(so.Addr),
				"s_tr", coqOptBytes(so.Tr), "s_rec", coqOptBytes(so.Rec), "s_rec_raw", coqOptBytes(so.RecRaw), "s_hs", coqOptBytes(so.Hs), "s_bid", coqOptBytes(so.Bid),
				"s_commit", coqOptBytes(so.Commit)))
		}
		e.Emit(class, in, obs, func(id int) string {
			return coqRecord("id", coqN(uint64(id)), "d", coqBigN(big10(in.D)), "pad_obs", coqBytes(obs.Pad),
				"unmarshal_ok", coqBool(obs.UnmarshalOK), "comp", coqBytes(obs.Comp), "pid_obs", coqBytes(obs.Pid),
				"px", coqBigN(big10(obs.X)), "py", coqBigN(big10(obs.Y)), "qx", coqBigN(big10(obs.QX)), "qy", coqBigN(big10(obs.QY)),
				"addr_pid_obs", coqOptBytes(obs.AddrPid), "addr_pub_obs", coqBytes(obs.AddrPub), "signers", coqList(sg),
				"full", coqBool(in.Full && obs.FullDone), "full_signer", coqN(uint64(in.Signer)), "start_ok", coqBool(obs.StartOK),
				"host_pid", coqBytes(obs.HostPid), "host_addr", coqOptBytes(obs.HostAddr),
				"conc_n", coqN(uint64(obs.ConcN)), "conc_wrong", coqN(uint64(obs.ConcWrong)))
		})
	}
	for _, raw := range e.Replay {
		var in c18In
		if err := json.Unmarshal(raw, &in); err != nil {
			t.Fatalf("bad replay input: %v", err)
		}
		run("replay", in)
	}
	if e.OnlyReplay() {
		return
	}
	n := crypto.S256().Params().N
	one := big.NewInt(1)
	run("edge", c18In{D: "1", Full: true})
	run("edge", c18In{D: new(big.Int).Sub(n, one).String(), Full: true})
	run("edge", c18In{D: "2"})
	run("edge", c18In{D: new(big.Int).Sub(n, big.NewInt(2)).String()})
	// every count k of leading zero bytes: scalars with exactly k leading zero bytes
	per := 2
	if e.Tier == "thorough" {
		per = 20
	}
	for k := 0; k <= 31; k++ {
		for j := 0; j < per; j++ {
			b := make([]byte, 32-k)
			e.rng.Read(b)
			if b[0] == 0 {
				b[0] = 1
			}
			d := new(big.Int).SetBytes(b)
			if d.Cmp(n) >= 0 {
				d.Sub(d, n)
				if d.Sign() == 0 {
					d.SetInt64(1)
				}
				// may have changed the count of leading zeros; still a valid key
			}
			class := "leading-zeros"
			run(class, c18In{D: d.String(), Full: j == 0})
			// the keystore signer's key hand-out and signatures without starting a service (other counts than below)
			if j == 1 && (e.Tier == "thorough" || k%4 == 3 || k == 30) {
				run("signer-keystore-nostart", c18In{D: d.String(), Signer: 2})
			}
			// the same key through the repository's own key signers (loaded from disk), every 4th count in quick
			if j == 0 && (e.Tier == "thorough" || k%4 == 1 || k == 31) {
				run("signer-file", c18In{D: d.String(), Full: true, Signer: 1})
				run("signer-keystore", c18In{D: d.String(), Full: true, Signer: 2})
			}
		}
	}
	// keys whose PUBLIC coordinates have leading zero bytes (about 1 in 128 keys): found by search
	// from a seed-dependent start, so that address derivation from short coordinates is exercised
	{
		wantX, wantY := 3, 3
		if e.Tier == "thorough" {
			wantX, wantY = 20, 20
		}
		start := new(big.Int).SetUint64(e.rng.Uint64())
		start.Lsh(start, 130)
		for i := int64(1); (wantX > 0 || wantY > 0) && i < 200000; i++ {
			d := new(big.Int).Add(start, big.NewInt(i))
			x, y := crypto.S256().ScalarBaseMult(d.Bytes())
			zx, zy := len(x.Bytes()) < 32, len(y.Bytes()) < 32
			if (zx && wantX > 0) || (zy && wantY > 0) {
				if zx {
					wantX--
				}
				if zy {
					wantY--
				}
				run("pub-leading-zero", c18In{D: d.String(), Full: wantX+wantY == 0})
			}
		}
	}
	// exact powers of 256 and their predecessors (boundary of each byte length)
	for k := 1; k <= 31; k++ {
		p := new(big.Int).Lsh(one, uint(8*k))
		run("byte-boundary", c18In{D: p.String()})
		run("byte-boundary", c18In{D: new(big.Int).Sub(p, one).String()})
	}
	// concurrent derivations: the address of a peer id is derived on every inbound handshake, concurrently
	for i := 0; i < 3; i++ {
		b := make([]byte, 32)
		e.rng.Read(b)
		dd := new(big.Int).SetBytes(b)
		dd.Mod(dd, new(big.Int).Sub(n, big.NewInt(1000)))
		dd.Add(dd, one)
		run("concurrent-derive", c18In{D: dd.String(), Conc: 24})
	}
	// the configured handshake secret: what is signed and what is sent must stay the same string, whatever it is
	secrets := []string{"test", "", " s", "s ", "s\n", "\ts\t", "a b", "\n", "  ", "s\r\n", "пароль-ключ", "秘密 ", strings.Repeat("long secret ", 200), "x\x00y", "\u00a0s\u00a0", "\u2028s"}
	randD := func() *big.Int {
		b := make([]byte, 32)
		e.rng.Read(b)
		d := new(big.Int).SetBytes(b)
		d.Mod(d, new(big.Int).Sub(n, one))
		d.Add(d, one)
		return d
	}
	for i := range secrets {
		sec := secrets[i]
		run("secrets", c18In{D: randD().String(), Secret: &sec, Full: i%5 == 1})
	}
	{
		sec := "s\n"
		run("secrets", c18In{D: randD().String(), Secret: &sec, Signer: 2})
	}
	for i := 0; i < e.N; i++ {
		in := c18In{D: randD().String()}
		if i%3 != 0 {
			sec := secrets[e.rng.Intn(len(secrets))]
			in.Secret = &sec
		}
		run("random", in)
	}
}
