package libp2p

// Correspondence driver for property C20 (a peer is usable as soon as connecting to it has
// succeeded).  Real services on loopback; the responder's KeySigner.GetAddress -- called by
// the responder between reading the final handshake message and registering the peer -- is a
// gate (or a delay), which realises the schedule classes of coq/check/Check_C20.v.

import (
	"bytes"
	"context"
	"crypto/ecdsa"
	"encoding/json"
	"errors"
	"fmt"
	"io"
	"log/slog"
	"math/rand"
	"runtime"
	"strings"
	"sync"
	"sync/atomic"
	"testing"
	"time"

	"github.com/ethereum/go-ethereum/common"
	"github.com/ethereum/go-ethereum/crypto"
	golibp2p "github.com/libp2p/go-libp2p"
	libp2pcrypto "github.com/libp2p/go-libp2p/core/crypto"
	"github.com/libp2p/go-libp2p/core/host"
	"github.com/libp2p/go-libp2p/core/peer"
	mockkeysigner "github.com/primevprotocol/mev-commit/pkg/keysigner/mock"
	"github.com/primevprotocol/mev-commit/pkg/p2p"
	"github.com/primevprotocol/mev-commit/pkg/util"
	"github.com/prometheus/client_golang/prometheus"
	"google.golang.org/protobuf/types/known/wrapperspb"
)

type c20In struct {
	Klass      int  `json:"klass"`      // 0 gated, 1 after the responder finished, 2 free running, 3 mutual, 4 cross, 5..10 cross under enforced schedules
	DelayMs    int  `json:"delay_ms"`   // class 2: how long the responder's GetAddress sleeps
	Streams    int  `json:"streams"`    // streams per initiator
	Inits      int  `json:"inits"`      // initiators handshaking concurrently
	Sequential bool `json:"sequential"` // classes 1, 2: open the streams one after the other
	IType      int  `json:"itype"`
	RType      int  `json:"rtype"`
	IStaked    bool `json:"istaked"` // responder's registry about the initiators
	RStaked    bool `json:"rstaked"` // initiators' registry about the responder
	RKsOk      bool `json:"rksok"`   // responder's GetAddress reports the address of its own key
	HoldMs     int  `json:"hold_ms"` // class 0: keep the gate closed this long after the streams were opened
	// class 0: another connection under the initiator's peer id (a raw libp2p host with the
	// initiator's key, no handshake on it) is closed at the responder while the responder is held
	// and before the streams are opened: 1 = opened while held, 2 = opened before Connect
	SecondConn int `json:"second_conn"`
	// class 0: an earlier handshake under the initiator's peer id, finished before this one:
	// 1 = refused: a service with the initiator's key whose registry does not know the (provider)
	//     responder gives up after reading the responder's request, the responder's final read
	//     fails (no block on either side that outlives that service);
	// 2 = accepted: the old incarnation stays connected and registered, the new one connects,
	//     and while the responder is held the old one goes away (its registry entry is removed)
	// 3 = (class 1) accepted: as 2, but the old incarnation goes away only after the responder has
	//     finished the new handshake; the streams are opened after that
	Prior int `json:"prior"`
}

type c20Stream struct {
	Res  string `json:"res"` // handled | refused | pending
	Addr string `json:"addr,omitempty"`
	Type int    `json:"type"`
	Err  string `json:"err,omitempty"`
}

type c20Obs struct {
	ConnectOK   bool        `json:"connect_ok"`
	ConnectErr  string      `json:"connect_err,omitempty"`
	Early       int         `json:"early"`
	Streams     []c20Stream `json:"streams"`
	GA          int         `json:"ga"`
	UnknownLogs int         `json:"unknown_logs"` // diagnostic only: "unknown peer" lines in the responder's log
	RegAtGate   bool        `json:"reg_at_gate"`  // diagnostic: responder had registered the peer while held at the gate
	OtherClosed bool        `json:"other_closed"` // the second connection was seen and seen closed by the responder
	OtherErr    string      `json:"other_err,omitempty"`
	PriorOK     bool        `json:"prior_ok"` // the earlier Connect reported success
	PriorErr    string      `json:"prior_err,omitempty"`
}

// c20KS is the responder's key signer: GetAddress counts, optionally sleeps, then waits for the gate.
type c20KS struct {
	*mockkeysigner.MockKeySigner
	addr  common.Address
	calls atomic.Int64
	delay time.Duration
	mu    sync.Mutex
	gate  chan struct{}
	// onlyHandle: the node also runs handshakes as initiator (which calls GetAddress when it checks
	// the first response); count and gate only the call made by handshake.Handle
	onlyHandle bool
	// classes 5..10: the call made by the node's own outbound handshake (verifyResp of the first
	// response, inside Connect) waits here when set
	initGate  chan struct{}
	initCalls atomic.Int64
}

func c20CalledFromHandle() bool {
	pcs := make([]uintptr, 32)
	n := runtime.Callers(2, pcs)
	frames := runtime.CallersFrames(pcs[:n])
	for {
		f, more := frames.Next()
		if strings.HasSuffix(f.Function, "handshake.(*Service).Handle") {
			return true
		}
		if !more {
			return false
		}
	}
}

func (k *c20KS) GetAddress() common.Address {
	if k.onlyHandle && !c20CalledFromHandle() {
		k.mu.Lock()
		ig := k.initGate
		k.mu.Unlock()
		if ig != nil {
			k.initCalls.Add(1)
			<-ig
		}
		return k.addr
	}
	k.calls.Add(1)
	if k.delay > 0 {
		time.Sleep(k.delay)
	}
	k.mu.Lock()
	g := k.gate
	k.mu.Unlock()
	<-g
	return k.addr
}

// open releases everything waiting at the gate and lets later calls pass.
func (k *c20KS) open() {
	k.mu.Lock()
	defer k.mu.Unlock()
	select {
	case <-k.gate:
	default:
		close(k.gate)
	}
}

// arm closes the gate for the calls to come.
func (k *c20KS) arm() {
	k.mu.Lock()
	defer k.mu.Unlock()
	select {
	case <-k.gate:
		k.gate = make(chan struct{})
	default:
	}
}

type c20Reg struct{ ans bool }

func (r *c20Reg) CheckProviderRegistered(context.Context, common.Address) bool { return r.ans }

type c20LogCounter struct {
	mu sync.Mutex
	n  int
}

func (w *c20LogCounter) Write(p []byte) (int, error) {
	if bytes.Contains(p, []byte("unknown peer")) {
		w.mu.Lock()
		w.n++
		w.mu.Unlock()
	}
	return len(p), nil
}

func c20Key(r *rand.Rand) *ecdsa.PrivateKey {
	for {
		b := make([]byte, 32)
		r.Read(b)
		if k, err := crypto.ToECDSA(b); err == nil {
			return k
		}
	}
}

var c20Desc = p2p.StreamDesc{Name: "c20verif", Version: "1.0.0"}

// c20PendingBound (x VERIF_SLOW): how long after the last release / open a stream may still be
// unfinished before it is observed as pending.  Nothing holds the responder back at that point, so
// on an unchanged tree the wait ends within milliseconds; the bound only has to exceed what a
// heavily loaded machine running a dozen cases at once can need.
const c20PendingBound = 60 * time.Second

// c20Until polls cond until it holds or the limit expires.
func c20Until(limit time.Duration, cond func() bool) bool {
	deadline := time.Now().Add(limit)
	for {
		if cond() {
			return true
		}
		if time.Now().After(deadline) {
			return false
		}
		time.Sleep(2 * time.Millisecond)
	}
}

type c20Seen struct {
	mu sync.Mutex
	m  map[string]p2p.Peer
}

// c20GateReg is B's provider registry in the mutual-dial class: B's verifyReq calls it (the remote
// is a provider) after B has passed the isConnected test of Connect and before B writes its final
// handshake message.
type c20GateReg struct {
	calls   atomic.Int64
	release chan struct{}
}

func (r *c20GateReg) CheckProviderRegistered(context.Context, common.Address) bool {
	r.calls.Add(1)
	<-r.release
	return true
}

// c20RunMutual realises class 3.  B dials A.  B is stopped inside its registry call, the driver
// takes B's registry lock (as a slow Disconnected callback would hold it), lets B go on: B writes
// its final message and blocks in addPeer.  A's handler registers B; A's Connect(B) returns through
// the shortcut; A opens its streams, which reach B's wrapper (blocked on the same lock).  Then the
// lock is released: the wrappers' first lookup runs before B's addPeer.
func c20RunMutual(t *testing.T, e *vfEnv, class string, in c20In, keyRng *rand.Rand) {
	slow := time.Duration(e.Slow)
	limit := 20 * time.Second * slow
	mkLogger := func() *slog.Logger {
		return slog.New(slog.NewTextHandler(io.Discard, &slog.HandlerOptions{Level: slog.LevelError}))
	}
	aKey, bKey := c20Key(keyRng), c20Key(keyRng)
	aAddr := crypto.PubkeyToAddress(aKey.PublicKey)
	aks := &c20KS{MockKeySigner: mockkeysigner.NewMockKeySigner(aKey, aAddr), addr: aAddr, gate: make(chan struct{})}
	aks.open()
	svcA, err := New(&Options{KeySigner: aks, Secret: "c20", ListenPort: 0, ListenAddr: "127.0.0.1",
		PeerType: p2p.PeerType(in.RType), Register: &c20Reg{ans: true}, MetricsReg: prometheus.NewRegistry(), Logger: mkLogger()})
	if err != nil {
		t.Errorf("c20: mutual A: %v", err)
		return
	}
	defer svcA.Close()
	gaBase := aks.calls.Load()
	breg := &c20GateReg{release: make(chan struct{})}
	var relOnce sync.Once
	releaseReg := func() { relOnce.Do(func() { close(breg.release) }) }
	defer releaseReg()
	svcB, err := New(&Options{KeySigner: mockkeysigner.NewMockKeySigner(bKey, crypto.PubkeyToAddress(bKey.PublicKey)),
		Secret: "c20", ListenPort: 0, ListenAddr: "127.0.0.1",
		PeerType: p2p.PeerType(in.IType), Register: breg, MetricsReg: prometheus.NewRegistry(), Logger: mkLogger()})
	if err != nil {
		t.Errorf("c20: mutual B: %v", err)
		return
	}
	defer svcB.Close()

	seen := &c20Seen{m: map[string]p2p.Peer{}}
	desc := c20Desc
	desc.Handler = func(ctx context.Context, from p2p.Peer, str p2p.Stream) error {
		msg := new(wrapperspb.StringValue)
		if err := str.ReadMsg(ctx, msg); err != nil {
			return err
		}
		seen.mu.Lock()
		seen.m[msg.Value] = from
		seen.mu.Unlock()
		return str.WriteMsg(ctx, &wrapperspb.StringValue{Value: "ack:" + msg.Value})
	}
	svcB.AddStreamHandlers(desc)
	aInfo, _ := peer.AddrInfo{ID: svcA.host.ID(), Addrs: svcA.host.Addrs()}.MarshalJSON()
	bInfo, _ := peer.AddrInfo{ID: svcB.host.ID(), Addrs: svcB.host.Addrs()}.MarshalJSON()

	ctx, cancel := context.WithTimeout(context.Background(), limit)
	defer cancel()
	sctx, scancel := context.WithCancel(context.Background())
	defer scancel()

	obs := c20Obs{Streams: make([]c20Stream, in.Streams)}
	for k := range obs.Streams {
		obs.Streams[k] = c20Stream{Res: "pending"}
	}
	bDone := make(chan error, 1)
	go func() {
		_, err := svcB.Connect(ctx, aInfo)
		bDone <- err
	}()
	locked := false
	unlock := func() {
		if locked {
			locked = false
			svcB.peers.mu.Unlock()
		}
	}
	defer unlock()
	var aPeer p2p.Peer
	var wg sync.WaitGroup
	var streamsDone atomic.Int64
	var obsMu sync.Mutex
	if !c20Until(limit/2, func() bool { return breg.calls.Load() >= 1 }) {
		obs.OtherErr = "B never asked its registry about A"
	} else {
		svcB.peers.mu.Lock()
		locked = true
		_, obs.RegAtGate = svcB.peers.overlays[svcA.host.ID()]
		releaseReg()
		if !c20Until(limit/2, func() bool { _, ok := svcA.peers.isConnected(svcB.host.ID()); return ok }) {
			obs.OtherErr = "A never registered B"
		} else {
			var err error
			aPeer, err = svcA.Connect(ctx, bInfo)
			obs.ConnectOK = err == nil
			if err != nil {
				obs.ConnectErr = err.Error()
			}
		}
		if obs.ConnectOK {
			for k := 0; k < in.Streams; k++ {
				wg.Add(1)
				go func(k int) {
					defer wg.Done()
					defer streamsDone.Add(1)
					key := fmt.Sprintf("m-%d", k)
					res := c20Stream{Res: "refused"}
					defer func() {
						obsMu.Lock()
						obs.Streams[k] = res
						obsMu.Unlock()
					}()
					str, err := svcA.NewStream(sctx, aPeer, nil, c20Desc)
					if err == nil {
						err = str.WriteMsg(sctx, &wrapperspb.StringValue{Value: key})
						if err == nil {
							reply := new(wrapperspb.StringValue)
							err = str.ReadMsg(sctx, reply)
							if err == nil && reply.Value != "ack:"+key {
								err = errors.New("unexpected reply " + reply.Value)
							}
						}
						_ = str.Close()
					}
					if err != nil {
						res.Err = err.Error()
						if errors.Is(err, context.DeadlineExceeded) || errors.Is(err, context.Canceled) {
							res.Res = "pending"
						}
						return
					}
					seen.mu.Lock()
					p, ok := seen.m[key]
					seen.mu.Unlock()
					if !ok {
						res.Err = "reply without handler record"
						return
					}
					res = c20Stream{Res: "handled", Addr: common.Bytes2Hex(p.EthAddress.Bytes()), Type: int(p.Type)}
				}(k)
			}
			// let the streams reach B's wrapper (it waits for the registry lock)
			c20Until(300*time.Millisecond*slow+time.Duration(in.HoldMs)*time.Millisecond,
				func() bool { return streamsDone.Load() >= int64(in.Streams) })
			obs.Early = int(streamsDone.Load())
		}
		unlock()
	}
	c20Until(c20PendingBound*slow, func() bool { return streamsDone.Load() >= int64(in.Streams) || !obs.ConnectOK })
	scancel()
	wg.Wait()
	select {
	case err := <-bDone:
		if err != nil {
			obs.PriorErr = "B's Connect: " + err.Error()
		}
	case <-time.After(limit / 2):
		obs.PriorErr = "B's Connect did not return"
	}
	obs.GA = int(aks.calls.Load() - gaBase)
	bAddr := svcB.ethAddress.Bytes()
	retAddr, retType := aPeer.EthAddress.Bytes(), int(aPeer.Type)
	if !obs.ConnectOK {
		retAddr, retType = nil, 0
		obs.Streams = nil
	}
	outs := []string{}
	for _, st := range obs.Streams {
		switch st.Res {
		case "handled":
			ty := st.Type
			if ty < 0 {
				ty = 99
			}
			outs = append(outs, coqApp("SHandled", coqBytes(common.Hex2Bytes(st.Addr)), coqN(uint64(ty))))
		case "refused":
			outs = append(outs, "SRefused")
		default:
			outs = append(outs, "SPending")
		}
	}
	e.Emit(class, in, obs, func(id int) string {
		return coqRecord("id", coqN(uint64(id)),
			"klass", coqN(3), "nstreams", coqN(uint64(in.Streams)), "ninit", coqN(1),
			"i_addr", coqBytes(bAddr), "i_type", coqN(uint64(in.IType)), "i_staked", coqBool(true),
			"r_addr", coqBytes(aAddr.Bytes()), "r_type", coqN(uint64(in.RType)), "r_staked", coqBool(true),
			"r_ks_ok", coqBool(true),
			"prior", coqN(0), "prior_ok", coqBool(false), "conn_close_other", coqBool(false),
			"connect_ok", coqBool(obs.ConnectOK),
			"ret_addr", coqBytes(retAddr), "ret_type", coqN(uint64(retType)),
			"early", coqN(uint64(obs.Early)), "reg_at_gate", coqBool(obs.RegAtGate),
			"outcomes", coqList(outs), "ga", coqN(uint64(obs.GA)))
	})
}

// c20RunCross realises class 4: both nodes call Connect towards each other at the same time.  With
// DelayMs == 0 both responder-role GetAddress calls are gated until the streams have been opened
// (and HoldMs has passed); otherwise they sleep DelayMs.  Both nodes then open streams to the other.
func c20RunCross(t *testing.T, e *vfEnv, class string, in c20In, keyRng *rand.Rand) {
	slow := time.Duration(e.Slow)
	limit := 20 * time.Second * slow
	types := [2]int{in.IType, in.RType}
	var svc [2]*Service
	var ks [2]*c20KS
	var seen [2]*c20Seen
	var info [2][]byte
	for x := 0; x < 2; x++ {
		k := c20Key(keyRng)
		a := crypto.PubkeyToAddress(k.PublicKey)
		ks[x] = &c20KS{MockKeySigner: mockkeysigner.NewMockKeySigner(k, a), addr: a, gate: make(chan struct{}), onlyHandle: true}
		if in.DelayMs > 0 {
			ks[x].delay = time.Duration(in.DelayMs) * time.Millisecond
			ks[x].open()
		}
		s, err := New(&Options{KeySigner: ks[x], Secret: "c20", ListenPort: 0, ListenAddr: "127.0.0.1",
			PeerType: p2p.PeerType(types[x]), Register: &c20Reg{ans: true}, MetricsReg: prometheus.NewRegistry(),
			Logger: slog.New(slog.NewTextHandler(io.Discard, &slog.HandlerOptions{Level: slog.LevelError}))})
		if err != nil {
			t.Errorf("c20: cross: %v", err)
			return
		}
		svc[x] = s
		defer s.Close()
		defer ks[x].open()
		sn := &c20Seen{m: map[string]p2p.Peer{}}
		seen[x] = sn
		desc := c20Desc
		desc.Handler = func(ctx context.Context, from p2p.Peer, str p2p.Stream) error {
			msg := new(wrapperspb.StringValue)
			if err := str.ReadMsg(ctx, msg); err != nil {
				return err
			}
			sn.mu.Lock()
			sn.m[msg.Value] = from
			sn.mu.Unlock()
			return str.WriteMsg(ctx, &wrapperspb.StringValue{Value: "ack:" + msg.Value})
		}
		s.AddStreamHandlers(desc)
		info[x], _ = peer.AddrInfo{ID: s.host.ID(), Addrs: s.host.Addrs()}.MarshalJSON()
	}
	ctx, cancel := context.WithTimeout(context.Background(), limit)
	defer cancel()
	sctx, scancel := context.WithCancel(context.Background())
	defer scancel()

	var obs [2]c20Obs
	var peers [2]p2p.Peer
	var errs [2]error
	var cwg sync.WaitGroup
	for x := 0; x < 2; x++ {
		obs[x].Streams = make([]c20Stream, in.Streams)
		for k := range obs[x].Streams {
			obs[x].Streams[k] = c20Stream{Res: "pending"}
		}
		cwg.Add(1)
		go func(x int) {
			defer cwg.Done()
			peers[x], errs[x] = svc[x].Connect(ctx, info[1-x])
		}(x)
	}
	cwg.Wait()
	var wg sync.WaitGroup
	var streamsDone atomic.Int64
	var obsMu sync.Mutex
	total := int64(0)
	for x := 0; x < 2; x++ {
		obs[x].ConnectOK = errs[x] == nil
		if errs[x] != nil {
			obs[x].ConnectErr = errs[x].Error()
			continue
		}
		for k := 0; k < in.Streams; k++ {
			total++
			wg.Add(1)
			go func(x, k int) {
				defer wg.Done()
				defer streamsDone.Add(1)
				key := fmt.Sprintf("x-%d-%d", x, k)
				res := c20Stream{Res: "refused"}
				defer func() {
					obsMu.Lock()
					obs[x].Streams[k] = res
					obsMu.Unlock()
				}()
				str, err := svc[x].NewStream(sctx, peers[x], nil, c20Desc)
				if err == nil {
					err = str.WriteMsg(sctx, &wrapperspb.StringValue{Value: key})
					if err == nil {
						reply := new(wrapperspb.StringValue)
						err = str.ReadMsg(sctx, reply)
						if err == nil && reply.Value != "ack:"+key {
							err = errors.New("unexpected reply " + reply.Value)
						}
					}
					_ = str.Close()
				}
				if err != nil {
					res.Err = err.Error()
					if errors.Is(err, context.DeadlineExceeded) || errors.Is(err, context.Canceled) {
						res.Res = "pending"
					}
					return
				}
				seen[1-x].mu.Lock()
				p, ok := seen[1-x].m[key]
				seen[1-x].mu.Unlock()
				if !ok {
					res.Err = "reply without handler record"
					return
				}
				res = c20Stream{Res: "handled", Addr: common.Bytes2Hex(p.EthAddress.Bytes()), Type: int(p.Type)}
			}(x, k)
		}
	}
	if in.DelayMs == 0 {
		c20Until(300*time.Millisecond*slow+time.Duration(in.HoldMs)*time.Millisecond,
			func() bool { return streamsDone.Load() >= total && total > 0 })
		early := int(streamsDone.Load())
		obs[0].Early, obs[1].Early = early, early
		ks[0].open()
		ks[1].open()
	}
	c20Until(time.Duration(in.DelayMs)*time.Millisecond+c20PendingBound*slow, func() bool { return streamsDone.Load() >= total })
	scancel()
	wg.Wait()
	for x := 0; x < 2; x++ {
		o := obs[x]
		o.GA = int(ks[1-x].calls.Load())
		retAddr, retType := peers[x].EthAddress.Bytes(), int(peers[x].Type)
		outs := []string{}
		if !o.ConnectOK {
			retAddr, retType = nil, 0
			o.Streams = nil
		}
		for _, st := range o.Streams {
			switch st.Res {
			case "handled":
				ty := st.Type
				if ty < 0 {
					ty = 99
				}
				outs = append(outs, coqApp("SHandled", coqBytes(common.Hex2Bytes(st.Addr)), coqN(uint64(ty))))
			case "refused":
				outs = append(outs, "SRefused")
			default:
				outs = append(outs, "SPending")
			}
		}
		x := x
		e.Emit(class, in, o, func(id int) string {
			return coqRecord("id", coqN(uint64(id)),
				"klass", coqN(4), "nstreams", coqN(uint64(in.Streams)), "ninit", coqN(1),
				"i_addr", coqBytes(svc[x].ethAddress.Bytes()), "i_type", coqN(uint64(types[x])), "i_staked", coqBool(true),
				"r_addr", coqBytes(svc[1-x].ethAddress.Bytes()), "r_type", coqN(uint64(types[1-x])), "r_staked", coqBool(true),
				"r_ks_ok", coqBool(true),
				"prior", coqN(0), "prior_ok", coqBool(false), "conn_close_other", coqBool(false),
				"connect_ok", coqBool(o.ConnectOK),
				"ret_addr", coqBytes(retAddr), "ret_type", coqN(uint64(retType)),
				"early", coqN(0), "reg_at_gate", coqBool(false),
				"outcomes", coqList(outs), "ga", coqN(uint64(o.GA)))
		})
	}
}

// c20RunCrossSched realises the cross-dial schedules 5..10 of coq/check/Check_C20.v (x_pre in
// coq/model/ConnectRace.v) with the gates of the two key signers and positive synchronisation:
// every step of the schedule is waited for (a Connect has returned, a handler has entered
// GetAddress, a registry holds the peer); a step that does not happen within the limit makes the
// case inconclusive (nothing is emitted).  Node 0 is the node that connects SECOND in 5/7/10 and
// FIRST in 6/8; the emitted case describes node 0's streams (answered by node 1); for the
// symmetric classes 5..9 a second case describes node 1's streams under the mirrored class.
func c20RunCrossSched(t *testing.T, e *vfEnv, class string, in c20In, keyRng *rand.Rand) {
	slow := time.Duration(e.Slow)
	limit := 30 * time.Second * slow
	types := [2]int{in.IType, in.RType}
	var svc [2]*Service
	var ks [2]*c20KS
	var seen [2]*c20Seen
	var info [2][]byte
	for x := 0; x < 2; x++ {
		k := c20Key(keyRng)
		a := crypto.PubkeyToAddress(k.PublicKey)
		ks[x] = &c20KS{MockKeySigner: mockkeysigner.NewMockKeySigner(k, a), addr: a, gate: make(chan struct{}), onlyHandle: true}
		if in.Klass == 5 || in.Klass == 6 {
			ks[x].open()
		}
		s, err := New(&Options{KeySigner: ks[x], Secret: "c20", ListenPort: 0, ListenAddr: "127.0.0.1",
			PeerType: p2p.PeerType(types[x]), Register: &c20Reg{ans: true}, MetricsReg: prometheus.NewRegistry(),
			Logger: slog.New(slog.NewTextHandler(io.Discard, &slog.HandlerOptions{Level: slog.LevelError}))})
		if err != nil {
			t.Errorf("c20: cross-sched: %v", err)
			return
		}
		svc[x] = s
		defer s.Close()
		defer ks[x].open()
		sn := &c20Seen{m: map[string]p2p.Peer{}}
		seen[x] = sn
		desc := c20Desc
		desc.Handler = func(ctx context.Context, from p2p.Peer, str p2p.Stream) error {
			msg := new(wrapperspb.StringValue)
			if err := str.ReadMsg(ctx, msg); err != nil {
				return err
			}
			sn.mu.Lock()
			sn.m[msg.Value] = from
			sn.mu.Unlock()
			return str.WriteMsg(ctx, &wrapperspb.StringValue{Value: "ack:" + msg.Value})
		}
		s.AddStreamHandlers(desc)
		info[x], _ = peer.AddrInfo{ID: s.host.ID(), Addrs: s.host.Addrs()}.MarshalJSON()
	}
	ctx, cancel := context.WithTimeout(context.Background(), limit+c20PendingBound*slow)
	defer cancel()
	sctx, scancel := context.WithCancel(context.Background())
	defer scancel()

	var peers [2]p2p.Peer
	var errs [2]error
	var done [2]chan struct{}
	connect := func(x int) {
		done[x] = make(chan struct{})
		go func() {
			defer close(done[x])
			peers[x], errs[x] = svc[x].Connect(ctx, info[1-x])
		}()
	}
	returned := func(x int) bool {
		select {
		case <-done[x]:
			return true
		case <-time.After(limit):
			return false
		}
	}
	inconclusive := func(what string) {
		t.Logf("c20: cross-sched class %d inconclusive: %s", in.Klass, what)
	}
	// x's handler (the responder role of node x) has entered GetAddress and is held there
	held := func(x int) bool { return c20Until(limit, func() bool { return ks[x].calls.Load() >= 1 }) }
	var initGate chan struct{}
	openers := []int{0, 1}
	switch in.Klass {
	case 5, 6: // first connects completely, then second connects: shortcut
		first, second := 1, 0
		if in.Klass == 6 {
			first, second = 0, 1
		}
		connect(first)
		if !returned(first) {
			inconclusive("first Connect did not return")
			return
		}
		firstID := svc[first].host.ID()
		if !c20Until(limit, func() bool { _, ok := svc[second].peers.isConnected(firstID); return ok }) {
			inconclusive("the handler of the first handshake did not register the dialler")
			return
		}
		connect(second)
		if !returned(second) {
			inconclusive("second Connect did not return")
			return
		}
	case 7, 8: // first connects while the other node's handler is held, then second connects (it dials)
		first, second := 1, 0
		if in.Klass == 8 {
			first, second = 0, 1
		}
		connect(first)
		if !returned(first) || !held(second) {
			inconclusive("first Connect did not return with the handler held")
			return
		}
		connect(second)
		if !returned(second) || !held(first) {
			inconclusive("second Connect did not return with the handler held")
			return
		}
	case 9: // both at once, both handlers held
		connect(0)
		connect(1)
		if !returned(0) || !returned(1) || !held(0) || !held(1) {
			inconclusive("the Connects did not return with both handlers held")
			return
		}
	case 10: // node 1's Connect is held inside its own handshake; node 0 connects meanwhile
		initGate = make(chan struct{})
		ks[1].mu.Lock()
		ks[1].initGate = initGate
		ks[1].mu.Unlock()
		defer func() {
			select {
			case <-initGate:
			default:
				close(initGate)
			}
		}()
		connect(1)
		if !c20Until(limit, func() bool { return ks[1].initCalls.Load() >= 1 }) {
			inconclusive("node 1's Connect did not reach verifyResp")
			return
		}
		connect(0)
		if !returned(0) || !held(1) {
			inconclusive("node 0's Connect did not return with the handler held")
			return
		}
		openers = []int{0}
	}

	var obs [2]c20Obs
	var wg sync.WaitGroup
	var streamsDone [2]atomic.Int64
	var obsMu sync.Mutex
	total := int64(0)
	for _, x := range openers {
		obs[x].Streams = make([]c20Stream, in.Streams)
		for k := range obs[x].Streams {
			obs[x].Streams[k] = c20Stream{Res: "pending"}
		}
		obs[x].ConnectOK = errs[x] == nil
		if errs[x] != nil {
			obs[x].ConnectErr = errs[x].Error()
			continue
		}
		for k := 0; k < in.Streams; k++ {
			total++
			wg.Add(1)
			go func(x, k int) {
				defer wg.Done()
				defer streamsDone[x].Add(1)
				key := fmt.Sprintf("xs-%d-%d", x, k)
				res := c20Stream{Res: "refused"}
				defer func() {
					obsMu.Lock()
					obs[x].Streams[k] = res
					obsMu.Unlock()
				}()
				str, err := svc[x].NewStream(sctx, peers[x], nil, c20Desc)
				if err == nil {
					err = str.WriteMsg(sctx, &wrapperspb.StringValue{Value: key})
					if err == nil {
						reply := new(wrapperspb.StringValue)
						err = str.ReadMsg(sctx, reply)
						if err == nil && reply.Value != "ack:"+key {
							err = errors.New("unexpected reply " + reply.Value)
						}
					}
					_ = str.Close()
				}
				if err != nil {
					res.Err = err.Error()
					if errors.Is(err, context.DeadlineExceeded) || errors.Is(err, context.Canceled) {
						res.Res = "pending"
					}
					return
				}
				seen[1-x].mu.Lock()
				p, ok := seen[1-x].m[key]
				seen[1-x].mu.Unlock()
				if !ok {
					res.Err = "reply without handler record"
					return
				}
				res = c20Stream{Res: "handled", Addr: common.Bytes2Hex(p.EthAddress.Bytes()), Type: int(p.Type)}
			}(x, k)
		}
	}
	allDone := func() bool { return streamsDone[0].Load()+streamsDone[1].Load() >= total }
	// the first look at the streams, handlers still held.  Classes 5..9: the answering node has
	// the opener registered (by its own Connect or by its handler), nothing has to wait: the
	// streams are given ample time to end.  Class 10: nothing is registered at node 1 and two
	// handshakes are on record there: the streams must still be waiting after the hold.
	if in.Klass == 10 {
		c20Until(300*time.Millisecond*slow+time.Duration(in.HoldMs)*time.Millisecond, allDone)
	} else {
		c20Until(20*time.Second*slow, allDone)
	}
	for _, x := range openers {
		obs[x].Early = int(streamsDone[x].Load())
	}
	if initGate != nil {
		close(initGate)
	}
	ks[0].open()
	ks[1].open()
	if in.Klass == 10 && !returned(1) {
		inconclusive("node 1's Connect did not return after the release")
		return
	}
	c20Until(c20PendingBound*slow, allDone)
	scancel()
	wg.Wait()
	for _, x := range openers {
		o := obs[x]
		o.GA = int(ks[1-x].calls.Load())
		retAddr, retType := peers[x].EthAddress.Bytes(), int(peers[x].Type)
		outs := []string{}
		if !o.ConnectOK {
			retAddr, retType = nil, 0
			o.Streams = nil
		}
		for _, st := range o.Streams {
			switch st.Res {
			case "handled":
				ty := st.Type
				if ty < 0 {
					ty = 99
				}
				outs = append(outs, coqApp("SHandled", coqBytes(common.Hex2Bytes(st.Addr)), coqN(uint64(ty))))
			case "refused":
				outs = append(outs, "SRefused")
			default:
				outs = append(outs, "SPending")
			}
		}
		// node 1's streams: the same world with the two nodes exchanged, i.e. the mirrored class
		klass := in.Klass
		if x == 1 {
			klass = map[int]int{5: 6, 6: 5, 7: 8, 8: 7, 9: 9}[in.Klass]
		}
		x := x
		e.Emit(class, in, o, func(id int) string {
			return coqRecord("id", coqN(uint64(id)),
				"klass", coqN(uint64(klass)), "nstreams", coqN(uint64(in.Streams)), "ninit", coqN(1),
				"i_addr", coqBytes(svc[x].ethAddress.Bytes()), "i_type", coqN(uint64(types[x])), "i_staked", coqBool(true),
				"r_addr", coqBytes(svc[1-x].ethAddress.Bytes()), "r_type", coqN(uint64(types[1-x])), "r_staked", coqBool(true),
				"r_ks_ok", coqBool(true),
				"prior", coqN(0), "prior_ok", coqBool(false), "conn_close_other", coqBool(false),
				"connect_ok", coqBool(o.ConnectOK),
				"ret_addr", coqBytes(retAddr), "ret_type", coqN(uint64(retType)),
				"early", coqN(uint64(o.Early)), "reg_at_gate", coqBool(false),
				"outcomes", coqList(outs), "ga", coqN(uint64(o.GA)))
		})
	}
}

func c20RunCase(t *testing.T, e *vfEnv, class string, in c20In, keyRng *rand.Rand) {
	if in.Klass == 3 {
		c20RunMutual(t, e, class, in, keyRng)
		return
	}
	if in.Klass == 4 {
		c20RunCross(t, e, class, in, keyRng)
		return
	}
	if in.Klass >= 5 && in.Klass <= 10 {
		c20RunCrossSched(t, e, class, in, keyRng)
		return
	}
	slow := time.Duration(e.Slow)
	limit := 20 * time.Second * slow
	if in.Inits < 1 {
		in.Inits = 1
	}

	// ---- responder -------------------------------------------------------------------
	rKey := c20Key(keyRng)
	rAddr := crypto.PubkeyToAddress(rKey.PublicKey)
	ksAddr := rAddr
	if !in.RKsOk {
		ksAddr[19] ^= 0x01
	}
	rks := &c20KS{
		MockKeySigner: mockkeysigner.NewMockKeySigner(rKey, ksAddr),
		addr:          ksAddr,
		gate:          make(chan struct{}),
	}
	if in.Klass == 2 {
		rks.delay = time.Duration(in.DelayMs) * time.Millisecond
	}
	if in.Klass != 0 || in.Prior != 0 {
		rks.open()
	}
	openGate := rks.open
	logc := &c20LogCounter{}
	rsp, err := New(&Options{
		KeySigner:  rks,
		Secret:     "c20",
		ListenPort: 0,
		ListenAddr: "127.0.0.1",
		PeerType:   p2p.PeerType(in.RType),
		Register:   &c20Reg{ans: in.IStaked},
		MetricsReg: prometheus.NewRegistry(), // own registry per service (trees before 0c53096 crash on a refused handshake without one)
		Logger:     slog.New(slog.NewTextHandler(logc, &slog.HandlerOptions{Level: slog.LevelError})),
	})
	if err != nil {
		t.Errorf("c20: responder: %v", err)
		return
	}
	defer func() {
		openGate()
		_ = rsp.Close()
	}()
	gaBase := rks.calls.Load() // calls made while constructing the service (none expected)

	seen := &c20Seen{m: map[string]p2p.Peer{}}
	desc := c20Desc
	desc.Handler = func(ctx context.Context, from p2p.Peer, str p2p.Stream) error {
		msg := new(wrapperspb.StringValue)
		if err := str.ReadMsg(ctx, msg); err != nil {
			return err
		}
		seen.mu.Lock()
		seen.m[msg.Value] = from
		seen.mu.Unlock()
		return str.WriteMsg(ctx, &wrapperspb.StringValue{Value: "ack:" + msg.Value})
	}
	rsp.AddStreamHandlers(desc)
	rInfo, err := peer.AddrInfo{ID: rsp.host.ID(), Addrs: rsp.host.Addrs()}.MarshalJSON()
	if err != nil {
		t.Errorf("c20: addrs: %v", err)
		return
	}

	// ---- initiators ------------------------------------------------------------------
	inis := make([]*Service, in.Inits)
	iKeys := make([]*ecdsa.PrivateKey, in.Inits)
	for j := range inis {
		k := c20Key(keyRng)
		iKeys[j] = k
		svc, err := New(&Options{
			KeySigner:  mockkeysigner.NewMockKeySigner(k, crypto.PubkeyToAddress(k.PublicKey)),
			Secret:     "c20",
			ListenPort: 0,
			ListenAddr: "127.0.0.1",
			PeerType:   p2p.PeerType(in.IType),
			Register:   &c20Reg{ans: in.RStaked},
			MetricsReg: prometheus.NewRegistry(),
			Logger:     slog.New(slog.NewTextHandler(io.Discard, &slog.HandlerOptions{Level: slog.LevelError})),
		})
		if err != nil {
			t.Errorf("c20: initiator: %v", err)
			return
		}
		inis[j] = svc
		defer svc.Close()
	}

	hold := time.Duration(in.HoldMs) * time.Millisecond
	ctx, cancel := context.WithTimeout(context.Background(), limit)
	defer cancel()
	// streams run on a context without deadline (a stream that must wait for a slow responder
	// must not be timed out by the driver); the cancel is only a safety net far beyond the hold
	sctx, scancel := context.WithCancel(context.Background())
	defer scancel()
	safety := time.AfterFunc(hold+3*limit, scancel)
	defer safety.Stop()

	type connRes struct {
		p   p2p.Peer
		err error
	}
	conn := make([]connRes, in.Inits)
	obs := make([]c20Obs, in.Inits)
	for j := range obs {
		obs[j].Streams = make([]c20Stream, in.Streams)
		for k := range obs[j].Streams {
			obs[j].Streams[k] = c20Stream{Res: "pending"}
		}
	}

	// one stream: NewStream + one message round trip; the handler's view is looked up by key
	var streamsDone atomic.Int64
	var obsMu sync.Mutex
	openOne := func(j, k int) {
		defer streamsDone.Add(1)
		key := fmt.Sprintf("s-%d-%d", j, k)
		res := c20Stream{Res: "refused"}
		defer func() {
			obsMu.Lock()
			obs[j].Streams[k] = res
			obsMu.Unlock()
		}()
		str, err := inis[j].NewStream(sctx, conn[j].p, nil, c20Desc)
		if err == nil {
			err = str.WriteMsg(sctx, &wrapperspb.StringValue{Value: key})
			if err == nil {
				reply := new(wrapperspb.StringValue)
				err = str.ReadMsg(sctx, reply)
				if err == nil && reply.Value != "ack:"+key {
					err = errors.New("unexpected reply " + reply.Value)
				}
			}
			_ = str.Close()
		}
		if err != nil {
			res.Err = err.Error()
			if errors.Is(err, context.DeadlineExceeded) || errors.Is(err, context.Canceled) {
				res.Res = "pending"
			}
			return
		}
		seen.mu.Lock()
		p, ok := seen.m[key]
		seen.mu.Unlock()
		if !ok {
			res.Err = "reply without handler record"
			return
		}
		res = c20Stream{Res: "handled", Addr: common.Bytes2Hex(p.EthAddress.Bytes()), Type: int(p.Type)}
	}
	var wg sync.WaitGroup
	openAll := func(j int) {
		if in.Sequential {
			wg.Add(1)
			go func() {
				defer wg.Done()
				for k := 0; k < in.Streams; k++ {
					openOne(j, k)
				}
			}()
			return
		}
		for k := 0; k < in.Streams; k++ {
			wg.Add(1)
			go func(k int) {
				defer wg.Done()
				openOne(j, k)
			}(k)
		}
	}

	// ---- second connections under the initiators' peer ids ---------------------------------
	rAddrInfo := peer.AddrInfo{ID: rsp.host.ID(), Addrs: rsp.host.Addrs()}
	spares := make([]host.Host, in.Inits)
	defer func() {
		for _, h := range spares {
			if h != nil {
				_ = h.Close()
			}
		}
	}()
	connsAtResponder := func(j int) int { return len(rsp.host.Network().ConnsToPeer(inis[j].host.ID())) }
	openSpare := func(j int) {
		lk, err := libp2pcrypto.UnmarshalSecp256k1PrivateKey(util.PadKeyTo32Bytes(iKeys[j].D))
		if err == nil {
			spares[j], err = golibp2p.New(golibp2p.Identity(lk), golibp2p.NoListenAddrs)
		}
		if err == nil {
			before := connsAtResponder(j)
			err = spares[j].Connect(ctx, rAddrInfo)
			if err == nil && !c20Until(limit/4, func() bool { return connsAtResponder(j) > before }) {
				err = errors.New("responder does not see the second connection")
			}
		}
		if err != nil {
			obs[j].OtherErr = err.Error()
		}
	}
	closeSpare := func(j int) {
		if spares[j] == nil || obs[j].OtherErr != "" {
			return
		}
		before := connsAtResponder(j)
		_ = spares[j].Close()
		if c20Until(limit/4, func() bool { return connsAtResponder(j) < before }) {
			obs[j].OtherClosed = true
		} else {
			obs[j].OtherErr = "responder does not see the second connection closed"
		}
	}
	if in.Klass == 0 && in.SecondConn == 2 {
		for j := range inis {
			openSpare(j)
		}
	}

	// ---- an earlier handshake under the same peer id ---------------------------------------
	olds := make([]*Service, in.Inits)
	defer func() {
		for _, o := range olds {
			if o != nil {
				_ = o.Close()
			}
		}
	}()
	if (in.Klass == 0 && (in.Prior == 1 || in.Prior == 2)) || (in.Klass == 1 && in.Prior == 3) {
		for j := range inis {
			o, err := New(&Options{
				KeySigner:  mockkeysigner.NewMockKeySigner(iKeys[j], crypto.PubkeyToAddress(iKeys[j].PublicKey)),
				Secret:     "c20",
				ListenPort: 0,
				ListenAddr: "127.0.0.1",
				PeerType:   p2p.PeerType(in.IType),
				Register:   &c20Reg{ans: in.Prior != 1},
				MetricsReg: prometheus.NewRegistry(),
				Logger:     slog.New(slog.NewTextHandler(io.Discard, &slog.HandlerOptions{Level: slog.LevelError})),
			})
			if err != nil {
				t.Errorf("c20: earlier incarnation: %v", err)
				return
			}
			olds[j] = o
			_, err = o.Connect(ctx, rInfo)
			obs[j].PriorOK = err == nil
			if err != nil {
				obs[j].PriorErr = err.Error()
			}
			if in.Prior == 1 {
				// both sides close the peer on a failed handshake; the responder's handler returns
				// right after closing it
				c20Until(limit/4, func() bool { return connsAtResponder(j) == 0 })
				time.Sleep(100 * time.Millisecond * slow)
				_ = o.Close()
				olds[j] = nil
			} else {
				c20Until(limit/4, func() bool {
					_, found := rsp.peers.getPeer(inis[j].host.ID())
					return found
				})
			}
		}
		if in.Klass == 0 {
			rks.arm()
		}
	}

	// ---- connect (all initiators concurrently) -------------------------------------------
	gaStart := rks.calls.Load()
	var cwg sync.WaitGroup
	for j := range inis {
		cwg.Add(1)
		go func(j int) {
			defer cwg.Done()
			p, err := inis[j].Connect(ctx, rInfo)
			conn[j] = connRes{p, err}
			if err == nil && in.Klass == 2 {
				// free running: open the first streams the moment Connect has returned
				openAll(j)
			}
		}(j)
	}
	cwg.Wait()
	okCount := 0
	for j := range inis {
		obs[j].ConnectOK = conn[j].err == nil
		if conn[j].err != nil {
			obs[j].ConnectErr = conn[j].err.Error()
		} else {
			okCount++
		}
	}
	responderFinished := func(j int) bool {
		id := inis[j].host.ID()
		if _, found := rsp.peers.getPeer(id); found {
			return true
		}
		return len(rsp.host.Network().ConnsToPeer(id)) == 0
	}
	totalStreams := int64(okCount * in.Streams)

	switch in.Klass {
	case 0:
		// every successful Connect means the responder reads the final message next and then
		// calls GetAddress: wait until it is held there (positive synchronisation)
		c20Until(limit/2, func() bool { return int(rks.calls.Load()-gaStart) >= okCount })
		if in.Prior == 2 {
			// the old incarnation goes away while the responder is held: its connection was the
			// only one the registry tracks for the peer, so the entry is removed (waited for)
			for j := range inis {
				if olds[j] != nil {
					_ = olds[j].Close()
					olds[j] = nil
					j := j
					c20Until(limit/4, func() bool {
						_, found := rsp.peers.getPeer(inis[j].host.ID())
						return !found
					})
				}
			}
		}
		for j := range inis {
			if conn[j].err == nil {
				if _, found := rsp.peers.getPeer(inis[j].host.ID()); found {
					obs[j].RegAtGate = true
				}
			}
		}
		if in.SecondConn != 0 {
			for j := range inis {
				if conn[j].err == nil {
					if in.SecondConn == 1 {
						openSpare(j)
					}
					closeSpare(j)
				}
			}
			// the responder's disconnect notifications run after the connection has left its
			// table; nothing observable marks their end on the unchanged tree
			time.Sleep(400 * time.Millisecond * slow)
		}
		for j := range inis {
			if conn[j].err == nil {
				openAll(j)
			}
		}
		// let the streams reach the responder's wrapper while the gate is closed
		allDone := func() bool { return streamsDone.Load() >= totalStreams && totalStreams > 0 }
		c20Until(300*time.Millisecond*slow, allDone)
		if hold > 0 {
			// long hold: the responder stays between the final read and the registration; the
			// streams must simply stay pending (leave early only if all of them already ended)
			c20Until(hold, allDone)
		}
		obsMu.Lock()
		for j := range inis {
			for _, s := range obs[j].Streams {
				if conn[j].err == nil && s.Res != "pending" {
					obs[j].Early++
				}
			}
		}
		obsMu.Unlock()
		openGate()
	case 1:
		for j := range inis {
			if conn[j].err == nil {
				j := j
				c20Until(limit/2, func() bool { return responderFinished(j) })
			}
		}
		if in.Prior == 3 {
			// the responder has passed GetAddress for the new handshake; give its handler the
			// chance to record the new connection (two tracked connections), then the old
			// incarnation goes away and its disconnect is processed
			c20Until(limit/2, func() bool { return int(rks.calls.Load()-gaStart) >= okCount })
			for j := range inis {
				if olds[j] == nil {
					continue
				}
				j := j
				c20Until(2*time.Second*slow, func() bool {
					rsp.peers.mu.RLock()
					defer rsp.peers.mu.RUnlock()
					return len(rsp.peers.connections[inis[j].host.ID()]) >= 2
				})
				before := connsAtResponder(j)
				_ = olds[j].Close()
				olds[j] = nil
				c20Until(limit/4, func() bool { return connsAtResponder(j) < before })
			}
			time.Sleep(400 * time.Millisecond * slow)
		}
		for j := range inis {
			if conn[j].err == nil {
				openAll(j)
			}
		}
	}
	// every stream has been opened and nothing holds the responder back any more: a stream that
	// has not ended within the bound is observed as pending
	c20Until(time.Duration(in.DelayMs)*time.Millisecond+c20PendingBound*slow,
		func() bool { return streamsDone.Load() >= totalStreams })
	scancel()
	wg.Wait()
	// the responder's side of every successful handshake has passed GetAddress by now; wait
	// for it positively before reading the counter
	c20Until(limit/4, func() bool { return int(rks.calls.Load()-gaStart) >= okCount })
	for j := range inis {
		if conn[j].err == nil {
			j := j
			c20Until(limit/4, func() bool { return responderFinished(j) })
		}
	}
	ga := int(rks.calls.Load() - gaBase)
	logc.mu.Lock()
	unknown := logc.n
	logc.mu.Unlock()

	for j := range inis {
		o := obs[j]
		o.GA = ga
		o.UnknownLogs = unknown
		iAddr := inis[j].ethAddress.Bytes()
		retAddr := conn[j].p.EthAddress.Bytes()
		retType := int(conn[j].p.Type)
		if conn[j].err != nil {
			retAddr, retType = nil, 0
		}
		outs := make([]string, 0, len(o.Streams))
		if o.ConnectOK {
			for _, s := range o.Streams {
				switch s.Res {
				case "handled":
					ty := s.Type
					if ty < 0 {
						ty = 99
					}
					outs = append(outs, coqApp("SHandled", coqBytes(common.Hex2Bytes(s.Addr)), coqN(uint64(ty))))
				case "refused":
					outs = append(outs, "SRefused")
				default:
					outs = append(outs, "SPending")
				}
			}
		} else {
			o.Streams = nil
		}
		early := 0
		if in.Klass == 0 {
			early = o.Early
		}
		one := in
		e.Emit(class, one, o, func(id int) string {
			return coqRecord("id", coqN(uint64(id)),
				"klass", coqN(uint64(in.Klass)),
				"nstreams", coqN(uint64(in.Streams)),
				"ninit", coqN(uint64(in.Inits)),
				"i_addr", coqBytes(iAddr), "i_type", coqN(uint64(in.IType)), "i_staked", coqBool(in.IStaked),
				"r_addr", coqBytes(rAddr.Bytes()), "r_type", coqN(uint64(in.RType)), "r_staked", coqBool(in.RStaked),
				"r_ks_ok", coqBool(in.RKsOk),
				"prior", coqN(uint64(in.Prior)), "prior_ok", coqBool(o.PriorOK),
				"conn_close_other", coqBool(o.OtherClosed),
				"connect_ok", coqBool(o.ConnectOK),
				"ret_addr", coqBytes(retAddr), "ret_type", coqN(uint64(retType)),
				"early", coqN(uint64(early)),
				"reg_at_gate", coqBool(o.RegAtGate),
				"outcomes", coqList(outs),
				"ga", coqN(uint64(ga)))
		})
	}
}

func TestVerifC20(t *testing.T) {
	e := vfOpen(t, 1)
	defer e.Close()
	keyRng := rand.New(rand.NewSource(e.Seed*7919 + 13))

	for _, raw := range e.Replay {
		var in c20In
		if err := json.Unmarshal(raw, &in); err != nil {
			t.Fatalf("bad replay input: %v", err)
		}
		c20RunCase(t, e, "replay", in, keyRng)
	}
	if e.OnlyReplay() {
		return
	}

	const bidder, provider = int(p2p.PeerTypeBidder), int(p2p.PeerTypeProvider)
	base := c20In{Streams: 1, Inits: 1, IType: bidder, RType: provider, IStaked: true, RStaked: true, RKsOk: true}
	mk := func(f func(*c20In)) c20In {
		in := base
		f(&in)
		return in
	}

	// long hold: the responder is kept between the final read and the registration for seconds
	// while a stream opened right after Connect returned waits.  These cases have their own
	// services and run concurrently with everything below, so the run grows by about the hold.
	holdA, holdB := 6000, 3500
	secondConn := []c20In{
		mk(func(in *c20In) { in.SecondConn = 1 }),
		mk(func(in *c20In) { in.SecondConn = 2; in.Streams = 2; in.IType = provider }),
	}
	if e.Tier == "thorough" {
		holdA, holdB = 35000, 12000
	}
	var lh sync.WaitGroup
	for i, in := range []c20In{
		mk(func(in *c20In) { in.HoldMs = holdA }),
		mk(func(in *c20In) { in.HoldMs = holdB; in.Streams = 2; in.Inits = 2; in.IType = provider }),
	} {
		lh.Add(1)
		go func(i int, in c20In) {
			defer lh.Done()
			c20RunCase(t, e, "long-hold", in, rand.New(rand.NewSource(e.Seed*104729+int64(i)+1)))
		}(i, in)
	}
	// second-connection: while the responder is held, another connection under the initiator's
	// peer id is closed at the responder, then the streams are opened (also run concurrently)
	if e.Tier != "quick" {
		secondConn = append(secondConn,
			mk(func(in *c20In) { in.SecondConn = 1; in.Inits = 2; in.Streams = 2; in.HoldMs = 1500 }),
			mk(func(in *c20In) { in.SecondConn = 2; in.RType = bidder; in.HoldMs = 4000 }))
	}
	// an earlier refused / accepted handshake under the same peer id (also run concurrently)
	earlier := []struct {
		class string
		in    c20In
	}{
		{"retry-after-failed-handshake", mk(func(in *c20In) { in.Prior = 1 })},
		{"retry-after-failed-handshake", mk(func(in *c20In) { in.Prior = 1; in.Streams = 2; in.IType = provider })},
		{"reconnect-old-closes", mk(func(in *c20In) { in.Prior = 2 })},
		{"reconnect-old-closes", mk(func(in *c20In) { in.Prior = 2; in.Streams = 2; in.IType = provider; in.HoldMs = 800 })},
		{"reconnect-then-old-closes", mk(func(in *c20In) { in.Klass = 1; in.Prior = 3; in.Streams = 2 })},
		{"reconnect-then-old-closes", mk(func(in *c20In) { in.Klass = 1; in.Prior = 3; in.IType = provider; in.Sequential = true; in.Streams = 3 })},
	}
	for i, c := range earlier {
		lh.Add(1)
		go func(i int, class string, in c20In) {
			defer lh.Done()
			c20RunCase(t, e, class, in, rand.New(rand.NewSource(e.Seed*32452843+int64(i)+1)))
		}(i, c.class, c.in)
	}
	// mutual dial: the node answering the streams is the handshake initiator (run concurrently)
	mutual := []c20In{
		mk(func(in *c20In) { in.Klass = 3; in.Streams = 6 }),
		mk(func(in *c20In) { in.Klass = 3; in.Streams = 4; in.IType = provider }),
	}
	if e.Tier != "quick" {
		for i := 0; i < 6; i++ {
			mutual = append(mutual, mk(func(in *c20In) { in.Klass = 3; in.Streams = 3 + i; in.HoldMs = 100 * i }))
		}
	}
	for i, in := range mutual {
		lh.Add(1)
		go func(i int, in c20In) {
			defer lh.Done()
			c20RunCase(t, e, "mutual-dial", in, rand.New(rand.NewSource(e.Seed*49979687+int64(i)+1)))
		}(i, in)
	}
	// cross dial: both nodes call Connect at the same time (two handshakes in opposite directions)
	cross := []c20In{
		mk(func(in *c20In) { in.Klass = 4; in.Streams = 2 }),
		mk(func(in *c20In) { in.Klass = 4; in.Streams = 2; in.DelayMs = 50; in.IType = provider }),
		mk(func(in *c20In) { in.Klass = 4; in.Streams = 1; in.DelayMs = 1 }),
	}
	if e.Tier != "quick" {
		for i := 0; i < 8; i++ {
			cross = append(cross, mk(func(in *c20In) {
				in.Klass = 4
				in.Streams = 1 + i%3
				in.DelayMs = []int{0, 1, 5, 20, 100, 300, 0, 2}[i]
				in.HoldMs = 200 * (i % 2)
			}))
		}
	}
	// cross dial under enforced schedules (classes 5..10 of Check_C20.v)
	for _, k := range []int{5, 6, 7, 8, 9, 10} {
		k := k
		cross = append(cross, mk(func(in *c20In) { in.Klass = k; in.Streams = 2; in.IType = []int{bidder, provider}[k%2] }))
	}
	if e.Tier != "quick" {
		for i := 0; i < 12; i++ {
			cross = append(cross, mk(func(in *c20In) {
				in.Klass = 5 + i%6
				in.Streams = 1 + i%4
				in.HoldMs = 300 * (i % 3)
				in.RType = []int{provider, bidder}[i%2]
			}))
		}
	}
	for i, in := range cross {
		lh.Add(1)
		go func(i int, in c20In) {
			defer lh.Done()
			c20RunCase(t, e, "cross-dial", in, rand.New(rand.NewSource(e.Seed*67867967+int64(i)+1)))
		}(i, in)
	}
	for i, in := range secondConn {
		lh.Add(1)
		go func(i int, in c20In) {
			defer lh.Done()
			c20RunCase(t, e, "second-connection", in, rand.New(rand.NewSource(e.Seed*15485863+int64(i)+1)))
		}(i, in)
	}
	defer lh.Wait()

	// gated: streams opened while the responder is held between the final read and the registration
	c20RunCase(t, e, "gated", mk(func(in *c20In) {}), keyRng)
	c20RunCase(t, e, "gated", mk(func(in *c20In) { in.Streams = 3 }), keyRng)
	c20RunCase(t, e, "gated", mk(func(in *c20In) { in.Streams = 2; in.IType = provider }), keyRng)
	c20RunCase(t, e, "gated", mk(func(in *c20In) { in.IType = provider; in.RType = bidder }), keyRng)
	// after the responder registered
	c20RunCase(t, e, "after", mk(func(in *c20In) { in.Klass = 1 }), keyRng)
	c20RunCase(t, e, "after", mk(func(in *c20In) { in.Klass = 1; in.Streams = 3; in.Sequential = true }), keyRng)
	// free running with responder delays
	for _, d := range []int{0, 50, 300} {
		d := d
		c20RunCase(t, e, "delay", mk(func(in *c20In) { in.Klass = 2; in.DelayMs = d }), keyRng)
		c20RunCase(t, e, "delay", mk(func(in *c20In) { in.Klass = 2; in.DelayMs = d; in.Streams = 3 }), keyRng)
	}
	c20RunCase(t, e, "delay", mk(func(in *c20In) { in.Klass = 2; in.DelayMs = 20; in.Streams = 3; in.Sequential = true }), keyRng)
	// several initiators at once
	c20RunCase(t, e, "concurrent-initiators", mk(func(in *c20In) { in.Inits = 3; in.Streams = 2 }), keyRng)
	c20RunCase(t, e, "concurrent-initiators", mk(func(in *c20In) { in.Klass = 2; in.DelayMs = 50; in.Inits = 3; in.Streams = 2 }), keyRng)
	// failure branches of the handshake
	c20RunCase(t, e, "responder-inconsistent", mk(func(in *c20In) { in.RKsOk = false }), keyRng)
	c20RunCase(t, e, "responder-inconsistent", mk(func(in *c20In) { in.RKsOk = false; in.Klass = 1 }), keyRng)
	c20RunCase(t, e, "responder-inconsistent", mk(func(in *c20In) { in.RKsOk = false; in.Klass = 2; in.DelayMs = 50 }), keyRng)
	c20RunCase(t, e, "connect-refused", mk(func(in *c20In) { in.IType = provider; in.IStaked = false }), keyRng)
	c20RunCase(t, e, "connect-refused", mk(func(in *c20In) { in.RStaked = false; in.Klass = 2 }), keyRng)

	// random schedules
	n := e.N
	if e.Tier == "quick" {
		n = 2 * e.N
	} else {
		n = 10 * e.N
	}
	types := []int{bidder, provider}
	for i := 0; i < n; i++ {
		in := base
		in.Klass = e.rng.Intn(3)
		in.Streams = 1 + e.rng.Intn(5)
		in.Inits = 1 + e.rng.Intn(3)
		in.IType = types[e.rng.Intn(2)]
		in.RType = types[e.rng.Intn(2)]
		in.Sequential = in.Klass != 0 && e.rng.Intn(3) == 0
		if in.Klass == 2 {
			in.DelayMs = []int{0, 1, 5, 20, 100, 250, 500}[e.rng.Intn(7)]
		}
		c20RunCase(t, e, "random", in, keyRng)
	}
}
