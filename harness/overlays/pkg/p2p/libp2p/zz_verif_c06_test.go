package libp2p

// C06 driver (7/8, 8/8): the transport layer.
//   read-msg / read-header  newStream(...).ReadMsg / newMetadataStream(...).ReadHeader over a fake
//                           network stream fed with hostile raw bytes (frame classes of NoPanic.v)
//   unmarshal               proto.Unmarshal of raw bytes into every protocol message type
//   connect-underlay        Service.Connect on garbage underlay bytes (what discovery hands over)
//   e2e-inbound / -outbound a real Service (with and WITHOUT a metrics registry) against a raw libp2p
//                           host that speaks the handshake protocol hostilely; afterwards an honest
//                           peer must still get through. Handler goroutines are libp2p's and cannot
//                           be recover()-ed: these cases run in a child process (this test binary
//                           re-executed on the input file); a crash is attributed to the case in
//                           flight and the child restarted for the rest.
//   e2e-stress              several hostile hosts at once against one Service (see c06RunStress)

import (
	"bufio"
	"bytes"
	"context"
	"crypto/ecdsa"
	"encoding/binary"
	"encoding/json"
	"errors"
	"fmt"
	"io"
	"log/slog"
	"math/rand"
	"os"
	"os/exec"
	"path/filepath"
	"runtime"
	"strconv"
	"strings"
	"sync"
	"sync/atomic"
	"testing"
	"time"

	"github.com/ethereum/go-ethereum/common"
	"github.com/ethereum/go-ethereum/crypto"
	golibp2p "github.com/libp2p/go-libp2p"
	libp2pcrypto "github.com/libp2p/go-libp2p/core/crypto"
	"github.com/libp2p/go-libp2p/core/host"
	"github.com/libp2p/go-libp2p/core/network"
	"github.com/libp2p/go-libp2p/core/peer"
	"github.com/libp2p/go-libp2p/core/protocol"
	discoverypb "github.com/primevprotocol/mev-commit/gen/go/discovery/v1"
	handshakepb "github.com/primevprotocol/mev-commit/gen/go/handshake/v1"
	preconfpb "github.com/primevprotocol/mev-commit/gen/go/preconfirmation/v1"
	streammsgv1 "github.com/primevprotocol/mev-commit/gen/go/streammsg/v1"
	"github.com/primevprotocol/mev-commit/pkg/discovery"
	mockkeysigner "github.com/primevprotocol/mev-commit/pkg/keysigner/mock"
	"github.com/primevprotocol/mev-commit/pkg/p2p"
	"github.com/primevprotocol/mev-commit/pkg/p2p/libp2p/internal/handshake"
	"github.com/primevprotocol/mev-commit/pkg/topology"
	"github.com/prometheus/client_golang/prometheus"
	dto "github.com/prometheus/client_model/go"
	spb "google.golang.org/genproto/googleapis/rpc/status"
	"google.golang.org/protobuf/encoding/protowire"
	"google.golang.org/protobuf/proto"
	"google.golang.org/protobuf/types/known/structpb"
)

const c06Pkg = "libp2p"

type c06In struct {
	Pkg   string
	Entry string // read-msg | read-header | unmarshal | connect-underlay | e2e-inbound | e2e-outbound
	// read-msg / read-header / unmarshal / connect-underlay: the bytes, Raw followed by Fill x FillN
	FC    string `json:",omitempty"` // frame class the generator built (checked again by the driver)
	Raw   []byte `json:",omitempty"`
	Fill  []byte `json:",omitempty"`
	FillN int    `json:",omitempty"`
	Msg   int    `json:",omitempty"` // message type: 0 HandshakeReq 1 HandshakeResp 2 PeerList 3 Bid 4 PreConfirmation 5 StreamMsg 6 Header
	// e2e
	Registry bool   `json:",omitempty"`
	Cls      string `json:",omitempty"`
	Variant  int    `json:",omitempty"`
	Seed     int64  `json:",omitempty"`
	IDKey    string `json:",omitempty"` // transport identity of the hostile host: "" secp256k1 | ed25519 | rsa | ecdsa
	// e2e-stress
	DurMs     int `json:",omitempty"` // how long the hostile hosts keep going
	Hammers   int `json:",omitempty"` // hosts opening and abandoning handshake streams
	Streamers int `json:",omitempty"` // unregistered hosts opening protocol streams
	Race      bool `json:",omitempty"` // run in a child built with the race detector
}

func (in c06In) bytes() []byte {
	if in.FillN > 0 {
		return append(append([]byte{}, in.Raw...), bytes.Repeat(in.Fill, in.FillN)...)
	}
	return in.Raw
}

type c06Obs struct {
	Panic bool
	Res   int
	Note  string `json:",omitempty"`
}

func c06Short(s string) string {
	if len(s) > 160 {
		return s[:160]
	}
	return s
}

// ---- fake network stream -----------------------------------------------------------------------------------

type c06Net struct{ r *bytes.Reader }

func (n *c06Net) Read(p []byte) (int, error)  { return n.r.Read(p) }
func (n *c06Net) Write(p []byte) (int, error) { return len(p), nil }
func (n *c06Net) Close() error                { return nil }
func (n *c06Net) Reset() error                { return nil }

func c06NewMsg(k int) proto.Message {
	switch k {
	case 0:
		return new(handshakepb.HandshakeReq)
	case 1:
		return new(handshakepb.HandshakeResp)
	case 2:
		return new(discoverypb.PeerList)
	case 3:
		return new(preconfpb.Bid)
	case 4:
		return new(preconfpb.PreConfirmation)
	case 5:
		return new(streammsgv1.StreamMsg)
	}
	return new(streammsgv1.Header)
}

func c06Frame(body []byte) []byte {
	out := make([]byte, 4+len(body))
	binary.BigEndian.PutUint32(out, uint32(len(body)))
	copy(out[4:], body)
	return out
}

func c06Envelope(inner []byte) []byte {
	if inner == nil {
		inner = []byte{}
	}
	return protowire.AppendBytes(protowire.AppendTag(nil, 1, protowire.BytesType), inner)
}

// c06Classify recomputes the frame class from the bytes alone (decodability judged by
// proto.Unmarshal called on its own, not through the code under test).
func c06Classify(in c06In) string {
	raw := in.bytes()
	if len(raw) < 4 {
		return "FEof"
	}
	n := int(binary.BigEndian.Uint32(raw))
	const max = 8 * 1024 * 1024
	if n > max {
		return "FOversized"
	}
	if len(raw)-4 < n {
		return "FTruncated"
	}
	if n == 0 {
		return "FZeroLen"
	}
	body := raw[4 : 4+n]
	if in.Entry == "read-header" {
		if proto.Unmarshal(body, new(streammsgv1.Header)) != nil {
			return "FUndecodable"
		}
		if in.FC == "FValid" || in.FC == "FWrongOuter" {
			return in.FC
		}
		return "FRandom"
	}
	env := new(streammsgv1.StreamMsg)
	if proto.Unmarshal(body, env) != nil {
		return "FUndecodable"
	}
	switch {
	case env.GetError() != nil:
		return "FErrorFrame"
	case env.GetData() == nil:
		if in.FC == "FWrongOuter" {
			return in.FC
		}
		return "FNoBody"
	}
	if proto.Unmarshal(env.GetData(), c06NewMsg(in.Msg)) != nil {
		return "FRandom"
	}
	if in.FC == "FValid" || in.FC == "FWrongInner" {
		return in.FC
	}
	return "FRandom"
}

// c06LocalInp: the Check_C06 input term of a non-e2e case (computed from the bytes alone).
func c06LocalInp(in c06In) string {
	switch in.Entry {
	case "read-msg":
		return coqApp("EReadMsg", c06Classify(in))
	case "read-header":
		return coqApp("EReadHeader", c06Classify(in))
	case "unmarshal":
		return coqApp("EUnmarshal", coqN(uint64(in.Msg)), coqN(uint64(len(in.bytes()))))
	}
	return coqApp("EConnect", coqN(uint64(len(in.bytes()))))
}

// c06RunLocal runs one non-e2e case under recover(). ReadMsg / ReadHeader read the frame on a goroutine
// of their own and Connect starts libp2p's dialer: a panic there cannot be recovered here, so the
// parent only runs "unmarshal" itself and sends the other entries to the child process.
func c06RunLocal(in c06In) (obs c06Obs) {
	defer func() {
		if r := recover(); r != nil {
			obs = c06Obs{Panic: true, Note: fmt.Sprint(r)}
		}
	}()
	ctx, cancel := context.WithTimeout(context.Background(), 20*time.Second)
	defer cancel()
	var err error
	switch in.Entry {
	case "read-msg":
		err = newStream(&c06Net{r: bytes.NewReader(in.bytes())}, nil, nil).ReadMsg(ctx, c06NewMsg(in.Msg))
	case "read-header":
		_, err = newMetadataStream(&c06Net{r: bytes.NewReader(in.bytes())}).ReadHeader(ctx)
	case "unmarshal":
		err = proto.Unmarshal(in.bytes(), c06NewMsg(in.Msg))
	default: // connect-underlay
		cctx, ccancel := context.WithTimeout(ctx, 3*time.Second)
		defer ccancel()
		_, err = c06SharedService().Connect(cctx, in.bytes())
	}
	if err != nil {
		obs.Res = 1
		obs.Note = c06Short(err.Error())
	}
	return
}

// ---- services and raw hosts ----------------------------------------------------------------------------------

type c06Reg bool

func (r c06Reg) CheckProviderRegistered(context.Context, common.Address) bool { return bool(r) }

func c06KeyFrom(r *rand.Rand) *ecdsa.PrivateKey {
	for {
		b := make([]byte, 32)
		r.Read(b)
		if k, err := crypto.ToECDSA(b); err == nil {
			return k
		}
	}
}

const c06Secret = "c06"

func c06NewService(k *ecdsa.PrivateKey, registry bool) (*Service, error) {
	opts := &Options{
		KeySigner:  mockkeysigner.NewMockKeySigner(k, crypto.PubkeyToAddress(k.PublicKey)),
		Secret:     c06Secret,
		ListenPort: 0,
		ListenAddr: "127.0.0.1",
		PeerType:   p2p.PeerTypeProvider,
		Register:   c06Reg(true),
		Logger:     slog.New(slog.NewTextHandler(io.Discard, nil)),
	}
	if registry {
		opts.MetricsReg = prometheus.NewRegistry()
	}
	return New(opts)
}

var c06Shared *Service

func c06SharedService() *Service {
	if c06Shared == nil {
		s, err := c06NewService(c06KeyFrom(rand.New(rand.NewSource(606))), true)
		if err != nil {
			panic("c06: cannot start the shared service: " + err.Error())
		}
		c06Shared = s
	}
	return c06Shared
}

// c06RawHostID: a raw host whose transport identity is of the given key type (the secp256k1 key k is then
// only used to sign handshake requests).
func c06RawHostID(k *ecdsa.PrivateKey, idKey string, r *rand.Rand) (host.Host, error) {
	typ := -1
	switch idKey {
	case "ed25519":
		typ = libp2pcrypto.Ed25519
	case "rsa":
		typ = libp2pcrypto.RSA
	case "ecdsa":
		typ = libp2pcrypto.ECDSA
	}
	if typ < 0 {
		return c06RawHost(k)
	}
	pk, _, err := libp2pcrypto.GenerateKeyPairWithReader(typ, 2048, r)
	if err != nil {
		return nil, err
	}
	return golibp2p.New(golibp2p.Identity(pk), golibp2p.ListenAddrStrings("/ip4/127.0.0.1/tcp/0"), golibp2p.DisableRelay())
}

func c06RawHost(k *ecdsa.PrivateKey) (host.Host, error) {
	pk, err := libp2pcrypto.UnmarshalSecp256k1PrivateKey(crypto.FromECDSA(k))
	if err != nil {
		return nil, err
	}
	return golibp2p.New(golibp2p.Identity(pk), golibp2p.ListenAddrStrings("/ip4/127.0.0.1/tcp/0"), golibp2p.DisableRelay())
}

func c06WriteMsg(s network.Stream, m proto.Message) error {
	b, err := proto.Marshal(m)
	if err != nil {
		return err
	}
	_, err = s.Write(c06Frame(c06Envelope(b)))
	return err
}

func c06ReadMsg(s network.Stream, m proto.Message) error {
	_ = s.SetReadDeadline(time.Now().Add(10 * time.Second))
	var hdr [4]byte
	if _, err := io.ReadFull(s, hdr[:]); err != nil {
		return err
	}
	n := binary.BigEndian.Uint32(hdr[:])
	if n > 1<<20 {
		return errors.New("c06: oversized frame from the service")
	}
	body := make([]byte, n)
	if _, err := io.ReadFull(s, body); err != nil {
		return err
	}
	env := new(streammsgv1.StreamMsg)
	if err := proto.Unmarshal(body, env); err != nil {
		return err
	}
	if env.GetData() == nil {
		return errors.New("c06: frame without data")
	}
	return proto.Unmarshal(env.GetData(), m)
}

func c06SignedReq(k *ecdsa.PrivateKey, role string) *handshakepb.HandshakeReq {
	sig, err := crypto.Sign(crypto.Keccak256([]byte(role+c06Secret)), k)
	if err != nil {
		panic(err)
	}
	return &handshakepb.HandshakeReq{PeerType: role, Token: c06Secret, Sig: sig}
}

// role strings that none of p2p.FromString's cases matches
var c06UnknownRoles = []string{"Provider", "", "bidderx", "unknown", "BIDDER", "bidder ", "validator"}

func c06RoleOf(cls string, variant int) string {
	if cls == "E2UnknownRole" {
		return c06UnknownRoles[variant%len(c06UnknownRoles)]
	}
	return "bidder"
}

func c06Echo(svc *Service) *handshakepb.HandshakeResp {
	return &handshakepb.HandshakeResp{ObservedAddress: svc.ethAddress.Bytes(), PeerType: svc.peerType.String()}
}

func c06Until(limit time.Duration, cond func() bool) bool {
	deadline := time.Now().Add(limit)
	for {
		if cond() {
			return true
		}
		if time.Now().After(deadline) {
			return false
		}
		time.Sleep(3 * time.Millisecond)
	}
}

func c06Counter(c prometheus.Counter) float64 {
	m := &dto.Metric{}
	if err := c.Write(m); err != nil {
		return -1
	}
	return m.GetCounter().GetValue()
}

// c06AwaitFailure waits until the service has processed the failed handshake (the failure counter
// moved). On a tree where the counters do not exist the process is about to die: just give it time.
func c06AwaitFailure(svc *Service, outgoing bool, slow time.Duration) {
	c := svc.metrics.FailedIncomingHandshakeCount
	if outgoing {
		c = svc.metrics.FailedOutgoingHandshakeCount
	}
	if c == nil {
		time.Sleep(400 * time.Millisecond * slow)
		return
	}
	c06Until(5*time.Second*slow, func() bool { return c06Counter(c) >= 1 })
	time.Sleep(20 * time.Millisecond) // the rest of the handler: blockPeer, return
}

// c06Initiate plays the initiator of the handshake on a raw stream. cls "E2Honest" is the complete valid
// exchange; every other class deviates at some point. Returns nil when the exchange ran to its end.
func c06Initiate(ctx context.Context, adv host.Host, advKey, foreign *ecdsa.PrivateKey, svc *Service, cls string, variant int, r *rand.Rand) error {
	if err := adv.Connect(ctx, peer.AddrInfo{ID: svc.host.ID(), Addrs: svc.host.Addrs()}); err != nil {
		return fmt.Errorf("connect: %w", err)
	}
	s, err := adv.NewStream(ctx, svc.host.ID(), handshake.ProtocolID())
	if err != nil {
		return fmt.Errorf("new stream: %w", err)
	}
	// the stream is left open on return (the service may still be reading); closing the host ends it
	junk := func(n int) []byte { b := make([]byte, n); r.Read(b); return b }
	req := c06SignedReq(advKey, c06RoleOf(cls, variant))
	switch cls {
	case "E2Garbage":
		switch variant % 3 {
		case 0:
			_, err = s.Write(c06Frame(junk(1 + r.Intn(60))))
		case 1:
			_, err = s.Write(junk(1 + r.Intn(200)))
		default:
			_, err = s.Write(c06Frame(c06Envelope(junk(1 + r.Intn(60)))))
		}
		_ = s.CloseWrite()
		return err
	case "E2ForeignSig":
		return c06WriteMsg(s, c06SignedReq(foreign, "bidder"))
	case "E2ShortSig":
		req.Sig = req.Sig[:[]int{0, 1, 10, 32, 64}[variant%5]]
		return c06WriteMsg(s, req)
	case "E2Oversized":
		_, err = s.Write(append([]byte{0xff, 0xff, 0xff, 0xff}, junk(32)...))
		return err
	case "E2WrongType":
		if variant%2 == 0 {
			return c06WriteMsg(s, c06Echo(svc))
		}
		b, _ := proto.Marshal(&streammsgv1.Header{Header: map[string]*structpb.Value{"k": structpb.NewStringValue("v")}})
		_, err = s.Write(c06Frame(b))
		return err
	case "E2CloseEarly":
		switch variant % 3 {
		case 0:
			return s.Reset()
		case 1:
			return s.Close()
		}
	}
	if err := c06WriteMsg(s, req); err != nil {
		return err
	}
	resp := new(handshakepb.HandshakeResp)
	if err := c06ReadMsg(s, resp); err != nil {
		return fmt.Errorf("read echo: %w", err)
	}
	theirs := new(handshakepb.HandshakeReq)
	if err := c06ReadMsg(s, theirs); err != nil {
		return fmt.Errorf("read request: %w", err)
	}
	switch cls {
	case "E2CloseEarly":
		return s.Reset()
	case "E2BadEcho":
		bad := c06Echo(svc)
		if variant%2 == 0 {
			bad.ObservedAddress = junk(20)
		} else {
			bad.PeerType = "bidder"
		}
		return c06WriteMsg(s, bad)
	}
	return c06WriteMsg(s, c06Echo(svc))
}

// c06Respond installs the responder side of the handshake on a raw host.
func c06Respond(adv host.Host, advKey, foreign *ecdsa.PrivateKey, svc *Service, cls string, variant int, r *rand.Rand) {
	adv.SetStreamHandler(handshake.ProtocolID(), func(s network.Stream) {
		junk := func(n int) []byte { b := make([]byte, n); r.Read(b); return b }
		if cls == "E2CloseEarly" {
			if variant%2 != 0 {
				_ = c06ReadMsg(s, new(handshakepb.HandshakeReq))
			}
			_ = s.Reset()
			return
		}
		// whatever was written is delivered: half-close, then wait for the service to end the stream
		defer func() {
			_ = s.CloseWrite()
			_ = s.SetReadDeadline(time.Now().Add(5 * time.Second))
			_, _ = io.Copy(io.Discard, s)
			_ = s.Reset()
		}()
		theirs := new(handshakepb.HandshakeReq)
		if c06ReadMsg(s, theirs) != nil {
			return
		}
		switch cls {
		case "E2Garbage":
			_, _ = s.Write(c06Frame(junk(1 + r.Intn(60))))
			return
		case "E2Oversized":
			_, _ = s.Write(append([]byte{0xff, 0xff, 0xff, 0xff}, junk(32)...))
			return
		case "E2WrongType":
			_ = c06WriteMsg(s, c06SignedReq(advKey, "bidder"))
			return
		case "E2BadEcho":
			_ = c06WriteMsg(s, &handshakepb.HandshakeResp{ObservedAddress: junk(20), PeerType: theirs.PeerType})
			return
		}
		if c06WriteMsg(s, &handshakepb.HandshakeResp{ObservedAddress: svc.ethAddress.Bytes(), PeerType: theirs.PeerType}) != nil {
			return
		}
		req := c06SignedReq(advKey, c06RoleOf(cls, variant))
		switch cls {
		case "E2ForeignSig":
			req = c06SignedReq(foreign, "bidder")
		case "E2ShortSig":
			req.Sig = req.Sig[:[]int{0, 1, 10, 32, 64}[variant%5]]
		}
		if c06WriteMsg(s, req) != nil {
			return
		}
		_ = c06ReadMsg(s, new(handshakepb.HandshakeResp))
	})
}

type c06ListStream struct{ raw []byte }

func (s *c06ListStream) ReadMsg(_ context.Context, m proto.Message) error { return proto.Unmarshal(s.raw, m) }
func (s *c06ListStream) WriteMsg(context.Context, proto.Message) error   { return nil }
func (s *c06ListStream) Reset() error                                    { return nil }
func (s *c06ListStream) Close() error                                    { return nil }

// c06Probe: the liveness probe. A fresh honest host completes the handshake and must be registered; one
// further attempt with another fresh host and doubled deadlines before the node is declared not serving (a
// loaded machine must not look like a dead node). An environment failure (no host) is inconclusive.
func c06Probe(svc *Service, foreign *ecdsa.PrivateKey, r *rand.Rand, slow time.Duration) (res int, note string) {
	for attempt := 1; attempt <= 2; attempt++ {
		k := c06KeyFrom(r)
		hon, err := c06RawHost(k)
		if err != nil {
			return 2, "raw host: " + err.Error()
		}
		limit := time.Duration(attempt) * 15 * time.Second * slow
		ctx, cancel := context.WithTimeout(context.Background(), limit)
		err = c06Initiate(ctx, hon, k, foreign, svc, "E2Honest", 0, r)
		ok := err == nil && c06Until(limit, func() bool { _, reg := svc.peers.isConnected(hon.ID()); return reg })
		cancel()
		_ = hon.Close()
		if ok {
			return 0, ""
		}
		if err != nil {
			note = fmt.Sprintf("honest peer afterwards (attempt %d): %v", attempt, err)
		} else {
			note = fmt.Sprintf("honest peer afterwards was not registered (attempt %d)", attempt)
		}
	}
	return 1, note
}

// c06RunE2E must only be called in a child process.
func c06RunE2E(in c06In, slow time.Duration) (obs c06Obs) {
	defer func() {
		if r := recover(); r != nil {
			obs = c06Obs{Panic: true, Note: fmt.Sprint(r)}
		}
	}()
	r := rand.New(rand.NewSource(in.Seed))
	svcKey, advKey, foreign, honestKey := c06KeyFrom(r), c06KeyFrom(r), c06KeyFrom(r), c06KeyFrom(r)
	svc, err := c06NewService(svcKey, in.Registry)
	if err != nil {
		return c06Obs{Res: 2, Note: "service: " + err.Error()}
	}
	defer svc.Close()
	// the node's wiring (pkg/node/node.go): a real Topology is the notifier of the Service, the real
	// discovery protocol is its announcer and a registered stream handler
	lg := slog.New(slog.NewTextHandler(io.Discard, &slog.HandlerOptions{Level: slog.LevelDebug}))
	topo := topology.New(svc, lg)
	disc := discovery.New(topo, svc, lg)
	defer disc.Close()
	topo.SetAnnouncer(disc)
	svc.SetNotifier(topo)
	svc.AddStreamHandlers(disc.Streams()...)
	adv, err := c06RawHostID(advKey, in.IDKey, r)
	if err != nil {
		return c06Obs{Res: 2, Note: "raw host: " + err.Error()}
	}
	defer adv.Close()
	ctx, cancel := context.WithTimeout(context.Background(), 30*time.Second*slow)
	defer cancel()
	fails := in.Cls != "E2Honest" && in.Cls != "E2UnknownRole"
	registered := func() bool { _, ok := svc.peers.isConnected(adv.ID()); return ok }
	var note string
	if in.Entry == "e2e-inbound" {
		if err := c06Initiate(ctx, adv, advKey, foreign, svc, in.Cls, in.Variant, r); err != nil {
			note = "adversary: " + err.Error()
		}
		if fails {
			c06AwaitFailure(svc, false, slow)
		} else if !c06Until(10*time.Second*slow, registered) {
			return c06Obs{Res: 1, Note: c06Short("the valid handshake did not register the peer; " + note)}
		}
	} else {
		c06Respond(adv, advKey, foreign, svc, in.Cls, in.Variant, r)
		info, _ := peer.AddrInfo{ID: adv.ID(), Addrs: adv.Addrs()}.MarshalJSON()
		if in.Cls == "E2UnknownRole" || (in.IDKey != "" && in.Variant%2 == 0) {
			// as in production: the underlay arrives in a gossiped peer list, discovery's worker dials
			// it and hands the resulting peer to the topology
			raw, _ := proto.Marshal(&discoverypb.PeerList{Peers: []*discoverypb.PeerInfo{{
				EthAddress: crypto.PubkeyToAddress(advKey.PublicKey).Bytes(), Underlay: info}}})
			if err := disc.Streams()[0].Handler(ctx, p2p.Peer{Type: p2p.PeerTypeBootnode}, &c06ListStream{raw: raw}); err != nil {
				note = "peer list: " + err.Error()
			}
			if fails {
				c06AwaitFailure(svc, true, slow)
			} else if !c06Until(10*time.Second*slow, registered) {
				return c06Obs{Res: 1, Note: c06Short("the valid handshake did not register the peer; " + note)}
			}
		} else {
			cctx, ccancel := context.WithTimeout(ctx, 10*time.Second*slow)
			_, err := svc.Connect(cctx, info)
			ccancel()
			if err != nil {
				note = "connect: " + err.Error()
			}
			if fails {
				c06AwaitFailure(svc, true, slow)
			} else if err != nil {
				return c06Obs{Res: 1, Note: c06Short("honest control: " + note)}
			}
		}
	}
	if in.Cls == "E2UnknownRole" {
		// the peer has been registered; what follows on the same goroutine (notifier.Connected resp.
		// topology.AddPeers) takes microseconds
		time.Sleep(300 * time.Millisecond * slow)
	}
	// the node keeps serving other peers: an honest one is admitted afterwards
	_ = honestKey
	if res, pn := c06Probe(svc, foreign, r, slow); res != 0 {
		return c06Obs{Res: res, Note: c06Short(pn + "; " + note)}
	}
	return c06Obs{Res: 0, Note: c06Short(note)}
}


const c06StressProto = "c06stress"

// c06RunStress must only be called in a child process. A real Service with a protocol handler is
// attacked for DurMs by several raw hosts at once: "hammers" keep opening handshake-protocol streams,
// get the handler started (a partial frame) and abandon them in batches, one registered host keeps
// completing valid handshakes again and again, and unregistered "streamers" keep opening streams of a
// registered protocol. Nothing here is malformed at the transport level. A runtime fatal error (e.g.
// concurrent map read and map write) or a panic in any goroutine of the Service ends the child and is
// attributed to this case. Afterwards an honest peer must still get through.
func c06RunStress(in c06In, slow time.Duration) (obs c06Obs) {
	defer func() {
		if r := recover(); r != nil {
			obs = c06Obs{Panic: true, Note: fmt.Sprint(r)}
		}
	}()
	if runtime.GOMAXPROCS(0) < 4 {
		runtime.GOMAXPROCS(4)
	}
	r := rand.New(rand.NewSource(in.Seed))
	svcKey, foreign, honestKey, regKey := c06KeyFrom(r), c06KeyFrom(r), c06KeyFrom(r), c06KeyFrom(r)
	svc, err := c06NewService(svcKey, in.Registry)
	if err != nil {
		return c06Obs{Res: 2, Note: "service: " + err.Error()}
	}
	defer svc.Close()
	svc.AddStreamHandlers(p2p.StreamDesc{Name: c06StressProto, Version: "1.0.0",
		Handler: func(context.Context, p2p.Peer, p2p.Stream) error { return nil }})
	target := peer.AddrInfo{ID: svc.host.ID(), Addrs: svc.host.Addrs()}
	var verCtr atomic.Int64
	nextProto := func() protocol.ID { // a version string the Service has not seen before, still compatible with 1.0.0
		return protocol.ID(fmt.Sprintf("/%s/1.0.%d", c06StressProto, verCtr.Add(1)))
	}
	ctx, cancel := context.WithTimeout(context.Background(), 60*time.Second*slow+time.Duration(in.DurMs)*time.Millisecond)
	defer cancel()
	stop := make(chan struct{})
	stopped := func() bool {
		select {
		case <-stop:
			return true
		default:
			return false
		}
	}
	var wg sync.WaitGroup
	var hosts []host.Host
	defer func() {
		for _, h := range hosts {
			_ = h.Close()
		}
	}()
	var nHs, nStreams, nRedo atomic.Int64
	newHost := func() host.Host {
		h, err := c06RawHost(c06KeyFrom(r))
		if err != nil {
			panic("c06: raw host: " + err.Error())
		}
		hosts = append(hosts, h)
		return h
	}
	// hammers: batches of handshake streams whose handler is started and then abandoned
	for i := 0; i < in.Hammers; i++ {
		h := newHost()
		for g := 0; g < 3; g++ {
			wg.Add(1)
			go func(g int) {
				defer wg.Done()
				for !stopped() {
					if h.Connect(ctx, target) != nil {
						time.Sleep(time.Millisecond)
						continue
					}
					var open []network.Stream
					for k := 0; k < 6 && !stopped(); k++ {
						s, err := h.NewStream(ctx, target.ID, handshake.ProtocolID())
						if err != nil {
							break
						}
						// a complete frame that does not decode: the handler starts, fails and ends
						if _, err := s.Write(c06Frame([]byte{0xff, byte(k), byte(g)})); err != nil {
							_ = s.Reset()
							break
						}
						open = append(open, s)
					}
					// wait until the Service has ended each of them (it resets the stream and closes the connection)
					var one [1]byte
					for _, s := range open {
						_ = s.SetReadDeadline(time.Now().Add(2 * time.Second))
						if _, err := s.Read(one[:]); err != nil {
							nHs.Add(1)
						}
						_ = s.Reset()
					}
				}
			}(g)
		}
	}
	// the hammers also open protocol streams themselves: their own handshakes are in flight, so the stream
	// wrapper really waits in waitHandshake on an entry that the finishing handshakes keep rewriting
	for _, h := range append([]host.Host{}, hosts...) {
		h := h
		wg.Add(1)
		go func() {
			defer wg.Done()
			for !stopped() {
				if h.Connect(ctx, target) != nil {
					time.Sleep(time.Millisecond)
					continue
				}
				s, err := h.NewStream(ctx, target.ID, nextProto())
				if err != nil {
					continue
				}
				var one [1]byte
				_ = s.SetDeadline(time.Now().Add(2 * time.Second))
				if _, err := s.Write([]byte{0}); err == nil {
					if _, err := s.Read(one[:]); err != nil {
						nStreams.Add(1)
					}
				}
				_ = s.Reset()
			}
		}()
	}
	// registered peers that keep repeating a complete valid handshake (the Service answers "peer
	// already exists" and keeps the connection)
	for i := 0; i < in.Hammers; i++ {
		k := regKey
		if i > 0 {
			k = c06KeyFrom(r)
		}
		reg, err := c06RawHost(k)
		if err != nil {
			return c06Obs{Res: 2, Note: "raw host: " + err.Error()}
		}
		hosts = append(hosts, reg)
		if c06Initiate(ctx, reg, k, foreign, svc, "E2Honest", 0, r) != nil {
			continue
		}
		for g := 0; g < 3; g++ {
			wg.Add(1)
			rr := rand.New(rand.NewSource(in.Seed + int64(16*i+g) + 1))
			go func() {
				defer wg.Done()
				for !stopped() {
					if c06Initiate(ctx, reg, k, foreign, svc, "E2Honest", 0, rr) != nil {
						time.Sleep(time.Millisecond)
						continue
					}
					nRedo.Add(1)
				}
			}()
		}
	}
	// streamers: connected, never handshaken, opening streams of a registered protocol
	for i := 0; i < in.Streamers; i++ {
		h := newHost()
		for g := 0; g < 3; g++ {
			wg.Add(1)
			go func() {
				defer wg.Done()
				for !stopped() {
					if h.Connect(ctx, target) != nil {
						time.Sleep(time.Millisecond)
						continue
					}
					s, err := h.NewStream(ctx, target.ID, nextProto())
					if err != nil {
						continue
					}
					// the write flushes the protocol negotiation; the read returns once the Service's stream
					// wrapper has looked the peer up (waitHandshake) and reset the stream
					var one [1]byte
					_ = s.SetDeadline(time.Now().Add(2 * time.Second))
					if _, err := s.Write([]byte{0}); err == nil {
						if _, err := s.Read(one[:]); err != nil {
							nStreams.Add(1)
						}
					}
					_ = s.Reset()
				}
			}()
		}
	}
	time.Sleep(time.Duration(in.DurMs) * time.Millisecond)
	close(stop)
	wg.Wait()
	note := fmt.Sprintf("handshake streams %d, repeated handshakes %d, protocol streams %d", nHs.Load(), nRedo.Load(), nStreams.Load())
	_ = honestKey
	if res, pn := c06Probe(svc, foreign, r, slow); res != 0 {
		return c06Obs{Res: res, Note: c06Short(pn + "; " + note)}
	}
	return c06Obs{Res: 0, Note: note}
}

// c06RunConcurrent must only be called in a child process: several goroutines call, at once and in a tight
// loop, code of the Service that peers make it run concurrently -- the block list (the connection gater asks
// isBlocked for every dial / accept, failed handshakes call blockPeer, the debug API reads BlockedPeers; timed
// blocks of a nanosecond expire at once) resp. the protocol matcher (one call per negotiated stream, here with
// version strings never seen before). A runtime fatal error (concurrent map access) ends the child.
func c06RunConcurrent(in c06In, slow time.Duration) (obs c06Obs) {
	defer func() {
		if r := recover(); r != nil {
			obs = c06Obs{Panic: true, Note: fmt.Sprint(r)}
		}
	}()
	if runtime.GOMAXPROCS(0) < 4 {
		runtime.GOMAXPROCS(4)
	}
	r := rand.New(rand.NewSource(in.Seed))
	stop := make(chan struct{})
	var wg sync.WaitGroup
	var ops atomic.Int64
	spawn := func(n int, f func(g int, rr *rand.Rand)) {
		for g := 0; g < n; g++ {
			wg.Add(1)
			rr := rand.New(rand.NewSource(in.Seed + int64(g) + 1))
			go func(g int) {
				defer wg.Done()
				for {
					select {
					case <-stop:
						return
					default:
					}
					f(g, rr)
					ops.Add(1)
				}
			}(g)
		}
	}
	if in.Entry == "block-stress" {
		svc, err := c06NewService(c06KeyFrom(r), true)
		if err != nil {
			return c06Obs{Res: 2, Note: "service: " + err.Error()}
		}
		defer svc.Close()
		var ids []peer.ID
		for i := 0; i < 64; i++ {
			pk, _ := libp2pcrypto.UnmarshalSecp256k1PrivateKey(crypto.FromECDSA(c06KeyFrom(r)))
			id, _ := peer.IDFromPublicKey(pk.GetPublic())
			ids = append(ids, id)
		}
		// first half of the time in rounds: every peer gets a timed block that has expired by the time the round
		// starts, then all goroutines ask about all of them at once (as reconnecting peers make the gater do)
		// while one lists the blocked peers
		deadline := time.Now().Add(time.Duration(in.DurMs/2) * time.Millisecond)
		for time.Now().Before(deadline) {
			for _, id := range ids {
				svc.blockPeer(id, time.Nanosecond, "c06 timed")
			}
			var rw sync.WaitGroup
			for g := 0; g < 8; g++ {
				rw.Add(1)
				go func(g int) {
					defer rw.Done()
					for k := range ids {
						if g == 7 && k%8 == 0 {
							_ = svc.BlockedPeers()
						}
						_ = svc.isBlocked(ids[(k*(2*g+1)+g)%len(ids)])
						ops.Add(1)
					}
				}(g)
			}
			rw.Wait()
		}
		// second half: a free mix
		spawn(8, func(g int, rr *rand.Rand) {
			id := ids[rr.Intn(len(ids))]
			switch rr.Intn(6) {
			case 0:
				svc.blockPeer(id, time.Duration(1+rr.Intn(1000)), "c06 timed")
			case 1:
				if rr.Intn(50) == 0 {
					svc.blockPeer(id, 0, "c06 for ever")
				}
			case 2:
				_ = svc.BlockedPeers()
			default:
				_ = svc.isBlocked(id)
			}
		})
		time.Sleep(time.Duration(in.DurMs/2) * time.Millisecond)
		close(stop)
		wg.Wait()
		return c06Obs{Res: 0, Note: fmt.Sprintf("%d calls", ops.Load())}
	} else {
		spawn(8, func(g int, rr *rand.Rand) {
			v := fmt.Sprintf("/%s/1.%d.%d", c06StressProto, rr.Intn(3), rr.Int63())
			if rr.Intn(8) == 0 {
				v = fmt.Sprintf("/%s/%d.x.%d", c06StressProto, rr.Intn(3), rr.Int63())
			}
			_, _ = matchProtocolIDWithSemver(v, c06StressProto, fmt.Sprintf("1.%d.0", rr.Intn(3)))
		})
	}
	time.Sleep(time.Duration(in.DurMs) * time.Millisecond)
	close(stop)
	wg.Wait()
	return c06Obs{Res: 0, Note: fmt.Sprintf("%d calls", ops.Load())}
}

func c06CoqE2E(in c06In) string {
	switch in.Entry {
	case "block-stress":
		return "EBlockStress"
	case "match-stress":
		return "EMatchStress"
	}
	if in.Entry == "e2e-stress" {
		return coqApp("EE2EStress", coqBool(in.Registry))
	}
	ctor := "EE2EOutbound"
	if in.Entry == "e2e-inbound" {
		ctor = "EE2EInbound"
	}
	return coqApp(ctor, coqBool(in.Registry), in.Cls)
}

var c06Classes = []string{"E2Honest", "E2Garbage", "E2ForeignSig", "E2ShortSig", "E2CloseEarly", "E2Oversized", "E2WrongType", "E2BadEcho", "E2UnknownRole", "E2NonSecpIdentity"}

func c06ValidClass(c string) bool {
	for _, k := range c06Classes {
		if k == c {
			return true
		}
	}
	return false
}

// ---- child process protocol ----------------------------------------------------------------------------------------

type c06ChildLine struct {
	I     int     `json:"i"`
	Start bool    `json:"start,omitempty"`
	Obs   *c06Obs `json:"obs,omitempty"`
}

func c06Child(t *testing.T) {
	data, err := os.ReadFile(os.Getenv("VERIF_C06_CHILD_IN"))
	if err != nil {
		t.Fatalf("c06 child: %v", err)
	}
	from, _ := strconv.Atoi(os.Getenv("VERIF_C06_CHILD_FROM"))
	slow, _ := strconv.Atoi(os.Getenv("VERIF_SLOW"))
	if slow < 1 {
		slow = 1
	}
	f, err := os.OpenFile(os.Getenv("VERIF_C06_CHILD_RES"), os.O_APPEND|os.O_CREATE|os.O_WRONLY, 0o644)
	if err != nil {
		t.Fatalf("c06 child: %v", err)
	}
	defer f.Close()
	put := func(l c06ChildLine) {
		b, _ := json.Marshal(l)
		f.Write(append(b, '\n'))
	}
	lines := strings.Split(strings.TrimSpace(string(data)), "\n")
	for i := from; i < len(lines); i++ {
		var in c06In
		if err := json.Unmarshal([]byte(lines[i]), &in); err != nil {
			t.Fatalf("c06 child: bad input %d: %v", i, err)
		}
		put(c06ChildLine{I: i, Start: true})
		var obs c06Obs
		switch {
		case in.Entry == "e2e-stress":
			obs = c06RunStress(in, time.Duration(slow))
		case in.Entry == "block-stress" || in.Entry == "match-stress":
			obs = c06RunConcurrent(in, time.Duration(slow))
		case strings.HasPrefix(in.Entry, "e2e-"):
			obs = c06RunE2E(in, time.Duration(slow))
		default:
			obs = c06RunLocal(in)
		}
		put(c06ChildLine{I: i, Obs: &obs})
	}
}


// c06CrashNote: why the child died (first "fatal error:" / "panic:" line) and the last lines it printed.
func c06CrashNote(out string) string {
	lines := strings.Split(strings.TrimSpace(out), "\n")
	why := ""
	for _, l := range lines {
		if strings.HasPrefix(l, "fatal error:") || strings.HasPrefix(l, "panic:") {
			why = l
			break
		}
	}
	if len(lines) > 6 {
		lines = lines[len(lines)-6:]
	}
	note := why + " | ... " + strings.Join(lines, " / ")
	if len(note) > 600 {
		note = note[:600]
	}
	return note
}

func c06RunInChildren(t *testing.T, ins []c06In, slow int) []c06Obs {
	out := make([]c06Obs, len(ins))
	if len(ins) == 0 {
		return out
	}
	dir := filepath.Dir(os.Getenv("VERIF_OUT"))
	inPath := filepath.Join(dir, fmt.Sprintf("c06_%s_child_%d.in.jsonl", c06Pkg, os.Getpid()))
	resPath := filepath.Join(dir, fmt.Sprintf("c06_%s_child_%d.res.jsonl", c06Pkg, os.Getpid()))
	defer os.Remove(inPath)
	defer os.Remove(resPath)
	var sb strings.Builder
	for _, in := range ins {
		b, _ := json.Marshal(in)
		sb.Write(b)
		sb.WriteByte('\n')
	}
	if err := os.WriteFile(inPath, []byte(sb.String()), 0o644); err != nil {
		t.Fatalf("c06: %v", err)
	}
	from := 0
	stalled := false
	for from < len(ins) {
		os.Remove(resPath)
		ctx, cancel := context.WithTimeout(context.Background(), time.Duration(slow)*15*time.Minute)
		cmd := exec.CommandContext(ctx, os.Args[0], "-test.run", "^TestVerifC06$", "-test.count=1", "-test.timeout=0")
		cmd.Env = append(os.Environ(), "VERIF_C06_CHILD_IN="+inPath, "VERIF_C06_CHILD_RES="+resPath,
			"VERIF_C06_CHILD_FROM="+strconv.Itoa(from), "VERIF_SLOW="+strconv.Itoa(slow))
		outb, runErr := cmd.CombinedOutput()
		cancel()
		started, done := -1, from-1
		if f, err := os.Open(resPath); err == nil {
			sc := bufio.NewScanner(f)
			sc.Buffer(make([]byte, 1<<20), 1<<26)
			for sc.Scan() {
				var l c06ChildLine
				if json.Unmarshal(sc.Bytes(), &l) != nil {
					continue
				}
				if l.Start {
					started = l.I
				} else if l.Obs != nil && l.I >= 0 && l.I < len(ins) {
					out[l.I] = *l.Obs
					done = l.I
				}
			}
			f.Close()
		}
		if started > done { // the child died inside case [started]
			out[started] = c06Obs{Panic: true, Note: c06CrashNote(string(outb))}
			done = started
		} else if done < from {
			// the child ended without even starting case [from] (it could not be run, or it was killed
			// between two cases): try once more, then record the case as not classified and move on
			if !stalled {
				stalled = true
				continue
			}
			out[from] = c06Obs{Res: 2, Note: c06Short(fmt.Sprintf("child could not run this case: %v; %s", runErr, c06CrashNote(string(outb))))}
			done = from
		}
		stalled = false
		from = done + 1
	}
	return out
}


// ---- the stress case under the race detector (thorough tier) ------------------------------------------------

var c06RaceBin string // "" not built yet, "-" unavailable

// c06BuildRace builds this package's test binary once more with -race, from the same overlay and
// module file the harness used for this run (they sit next to VERIF_OUT).
func c06BuildRace(t *testing.T) string {
	if c06RaceBin != "" {
		return c06RaceBin
	}
	c06RaceBin = "-"
	dir := filepath.Dir(os.Getenv("VERIF_OUT"))
	ov, mod := filepath.Join(dir, "overlay.json"), filepath.Join(dir, "go.mod")
	if _, err := os.Stat(ov); err != nil {
		t.Logf("c06: no overlay next to VERIF_OUT, race run skipped")
		return c06RaceBin
	}
	bin := filepath.Join(dir, fmt.Sprintf("c06_race_%d.test", os.Getpid()))
	ctx, cancel := context.WithTimeout(context.Background(), 25*time.Minute)
	defer cancel()
	cmd := exec.CommandContext(ctx, "go", "test", "-race", "-c", "-overlay", ov, "-modfile", mod, "-vet=off", "-o", bin, ".")
	if out, err := cmd.CombinedOutput(); err != nil {
		t.Logf("c06: race build unavailable, race run skipped: %v\n%s", err, c06Short(string(out)))
		return c06RaceBin
	}
	c06RaceBin = bin
	return bin
}

// c06RepoRaces returns the data race reports that involve code of this repository (a frame in a
// package under .../mev-commit/pkg/ whose file is not a test file), one line per report.
func c06RepoRaces(out string) []string {
	var res []string
	for _, blk := range strings.Split(out, "WARNING: DATA RACE")[1:] {
		if i := strings.Index(blk, "=================="); i >= 0 {
			blk = blk[:i]
		}
		lines := strings.Split(blk, "\n")
		var frames []string
		for i := 0; i+1 < len(lines); i++ {
			fn := strings.TrimSpace(lines[i])
			file := strings.TrimSpace(lines[i+1])
			if strings.HasPrefix(fn, "github.com/primevprotocol/mev-commit/pkg/") && strings.Contains(file, ".go:") &&
				!strings.Contains(file, "_test.go:") {
				if j := strings.LastIndex(file, "/pkg/"); j >= 0 {
					file = file[j+1:]
				}
				frames = append(frames, fn+" "+strings.Fields(file)[0])
			}
		}
		if len(frames) > 0 {
			if len(frames) > 3 {
				frames = frames[:3]
			}
			kind := "DATA RACE: "
			if strings.Contains(blk, "runtime.mapaccess") || strings.Contains(blk, "runtime.mapassign") ||
				strings.Contains(blk, "runtime.mapdelete") || strings.Contains(blk, "runtime.mapiter") {
				kind = "DATA RACE ON A MAP: " // without the detector the runtime aborts the process on these
			}
			res = append(res, kind+strings.Join(frames, " <-> "))
		}
	}
	return res
}

// c06RunRace runs one stress case in a race-detector child. ok = false: the race build is not available.
func c06RunRace(t *testing.T, in c06In, slow int) (obs c06Obs, ok bool) {
	bin := c06BuildRace(t)
	if bin == "-" {
		return obs, false
	}
	dir := filepath.Dir(os.Getenv("VERIF_OUT"))
	inPath := filepath.Join(dir, fmt.Sprintf("c06_race_%d.in.jsonl", os.Getpid()))
	resPath := filepath.Join(dir, fmt.Sprintf("c06_race_%d.res.jsonl", os.Getpid()))
	defer os.Remove(inPath)
	defer os.Remove(resPath)
	os.Remove(resPath)
	b, _ := json.Marshal(in)
	if err := os.WriteFile(inPath, append(b, '\n'), 0o644); err != nil {
		return obs, false
	}
	ctx, cancel := context.WithTimeout(context.Background(), time.Duration(slow)*10*time.Minute)
	defer cancel()
	cmd := exec.CommandContext(ctx, bin, "-test.run", "^TestVerifC06$", "-test.count=1", "-test.timeout=0")
	cmd.Env = append(os.Environ(), "VERIF_C06_CHILD_IN="+inPath, "VERIF_C06_CHILD_RES="+resPath, "VERIF_C06_CHILD_FROM=0",
		"VERIF_SLOW="+strconv.Itoa(3*slow), "GORACE=halt_on_error=0")
	outb, _ := cmd.CombinedOutput()
	done := false
	if data, err := os.ReadFile(resPath); err == nil {
		for _, ln := range strings.Split(string(data), "\n") {
			var l c06ChildLine
			if json.Unmarshal([]byte(ln), &l) == nil && l.Obs != nil {
				obs, done = *l.Obs, true
			}
		}
	}
	if !done {
		obs = c06Obs{Panic: true, Note: c06CrashNote(string(outb))}
	}
	if races := c06RepoRaces(string(outb)); len(races) > 0 {
		first, onMap := races[0], false
		for _, r := range races {
			if strings.HasPrefix(r, "DATA RACE ON A MAP") {
				first, onMap = r, true
				break
			}
		}
		note := fmt.Sprintf("%d race reports in repository code; %s", len(races), first)
		if len(note) > 500 {
			note = note[:500]
		}
		if onMap || obs.Panic {
			obs = c06Obs{Panic: true, Note: note} // a crash in a normal build
		} else {
			obs = c06Obs{Res: 3, Note: note} // result class 3: unsynchronised access reported, no crash
		}
	}
	return obs, true
}

// ---- generators ---------------------------------------------------------------------------------------------------------

func c06Junk(r *rand.Rand, n int) []byte { b := make([]byte, n); r.Read(b); return b }

// a valid (possibly hostile-valued) message of type k
func c06ValidMsg(r *rand.Rand, k int) []byte {
	var m proto.Message
	switch k {
	case 0:
		m = &handshakepb.HandshakeReq{PeerType: []string{"bidder", "provider", "", "x"}[r.Intn(4)], Token: "t", Sig: c06Junk(r, r.Intn(71))}
	case 1:
		m = &handshakepb.HandshakeResp{ObservedAddress: c06Junk(r, r.Intn(41)), PeerType: "bidder"}
	case 2:
		m = &discoverypb.PeerList{Peers: []*discoverypb.PeerInfo{{EthAddress: c06Junk(r, r.Intn(41)), Underlay: c06Junk(r, r.Intn(50))}, {}}}
	case 3:
		m = &preconfpb.Bid{TxHash: "tx", BidAmount: []string{"1", "", "abc", "-1"}[r.Intn(4)], BlockNumber: r.Int63() - r.Int63(), Digest: c06Junk(r, r.Intn(40)), Signature: c06Junk(r, r.Intn(71))}
	case 4:
		m = &preconfpb.PreConfirmation{Digest: c06Junk(r, r.Intn(40)), Signature: c06Junk(r, r.Intn(71))}
		if r.Intn(2) == 0 {
			m.(*preconfpb.PreConfirmation).Bid = &preconfpb.Bid{BidAmount: "1", Signature: c06Junk(r, r.Intn(71))}
		}
	case 5:
		m = &streammsgv1.StreamMsg{Body: &streammsgv1.StreamMsg_Data{Data: c06Junk(r, r.Intn(30))}}
	default:
		m = &streammsgv1.Header{Header: map[string]*structpb.Value{"a": structpb.NewNumberValue(1), "b": structpb.NewListValue(&structpb.ListValue{Values: []*structpb.Value{structpb.NewNullValue()}})}}
	}
	b, err := proto.Marshal(m)
	if err != nil {
		panic(err)
	}
	return b
}

// nested google.protobuf.Value lists, depth levels deep, as the value of header key "k"
func c06DeepHeader(depth int) []byte {
	v := []byte{0x08, 0x00} // null_value
	for i := 0; i < depth; i++ {
		lv := protowire.AppendBytes(protowire.AppendTag(nil, 1, protowire.BytesType), v)  // ListValue{values: [v]}
		v = protowire.AppendBytes(protowire.AppendTag(nil, 6, protowire.BytesType), lv) // Value{list_value}
	}
	entry := protowire.AppendString(protowire.AppendTag(nil, 1, protowire.BytesType), "k")
	entry = protowire.AppendBytes(protowire.AppendTag(entry, 2, protowire.BytesType), v)
	return protowire.AppendBytes(protowire.AppendTag(nil, 1, protowire.BytesType), entry)
}

func c06GenFrame(r *rand.Rand, entry string) c06In {
	in := c06In{Pkg: c06Pkg, Entry: entry, Msg: r.Intn(5)}
	hdr := entry == "read-header"
	valid := func() []byte {
		if hdr {
			return c06ValidMsg(r, 6)
		}
		return c06Envelope(c06ValidMsg(r, in.Msg))
	}
	switch r.Intn(13) {
	case 0:
		in.FC, in.Raw = "FValid", c06Frame(valid())
	case 1:
		in.FC = "FWrongOuter"
		if hdr {
			in.Raw = c06Frame(c06ValidMsg(r, r.Intn(6)))
		} else {
			in.Raw = c06Frame(c06ValidMsg(r, []int{0, 1, 3, 6}[r.Intn(4)]))
		}
	case 2:
		in.FC = "FWrongInner"
		in.Raw = c06Frame(c06Envelope(c06ValidMsg(r, (in.Msg+1+r.Intn(5))%7)))
	case 3:
		in.FC, in.Raw = "FUndecodable", c06Frame(c06Junk(r, 1+r.Intn(80)))
	case 4:
		in.FC, in.Raw = "FZeroLen", []byte{0, 0, 0, 0}
	case 5:
		in.FC = "FOversized"
		in.Raw = append([][]byte{{0x00, 0x80, 0x00, 0x01}, {0xff, 0xff, 0xff, 0xff}, {0x80, 0, 0, 0}, {0x7f, 0xff, 0xff, 0xff}}[r.Intn(4)], c06Junk(r, r.Intn(20))...)
	case 6:
		in.FC = "FTruncated"
		w := c06Frame(valid())
		if r.Intn(4) == 0 { // announces exactly the limit, delivers a little
			w = append([]byte{0x00, 0x80, 0x00, 0x00}, c06Junk(r, r.Intn(100))...)
		} else if len(w) > 5 {
			w = w[:4+r.Intn(len(w)-4)]
		}
		in.Raw = w
	case 7:
		in.FC = "FErrorFrame"
		st, _ := proto.Marshal(&spb.Status{Code: int32([]int{0, 1, 3, 13, 16, 17, -1, 1 << 30}[r.Intn(8)]), Message: string(c06Junk(r, r.Intn(10)))})
		if st == nil {
			st, _ = proto.Marshal(&spb.Status{Code: 3, Message: "m"})
		}
		in.Raw = c06Frame(protowire.AppendBytes(protowire.AppendTag(nil, 2, protowire.BytesType), st))
	case 8:
		in.FC = "FNoBody"
		in.Raw = c06Frame([][]byte{{0xf8, 0x07, 0x01}, {0x18, 0x01}, {0x9a, 0x01, 0x00}}[r.Intn(3)])
	case 9:
		in.FC, in.Raw = "FEof", c06Junk(r, r.Intn(4))
	case 10:
		in.FC, in.Raw = "FRandom", c06Junk(r, r.Intn(64))
	case 11: // a large but admissible frame
		in.FC = "FRandom"
		n := []int{1 << 16, 1 << 20, 8*1024*1024 - 16}[r.Intn(3)]
		body := protowire.AppendTag(nil, 1, protowire.BytesType)
		body = protowire.AppendVarint(body, uint64(n))
		in.Raw = make([]byte, 4)
		binary.BigEndian.PutUint32(in.Raw, uint32(len(body)+n))
		in.Raw = append(in.Raw, body...)
		in.Fill, in.FillN = []byte{0x41}, n
	default: // deeply nested header values / nested envelope
		in.FC = "FRandom"
		d := []int{10, 100, 9000, 20000}[r.Intn(4)]
		if hdr {
			in.Raw = c06Frame(c06DeepHeader(d))
		} else {
			in.Msg = 6
			in.Raw = c06Frame(c06Envelope(c06DeepHeader(d)))
		}
	}
	return in
}

func c06GenUnmarshal(r *rand.Rand) c06In {
	in := c06In{Pkg: c06Pkg, Entry: "unmarshal", Msg: r.Intn(7)}
	switch r.Intn(5) {
	case 0:
		in.Raw = c06Junk(r, r.Intn(200))
	case 1: // plausible tags, random payloads
		var b []byte
		for i := 0; i < 1+r.Intn(6); i++ {
			num := protowire.Number(1 + r.Intn(8))
			switch r.Intn(4) {
			case 0:
				b = protowire.AppendVarint(protowire.AppendTag(b, num, protowire.VarintType), r.Uint64())
			case 1:
				b = protowire.AppendBytes(protowire.AppendTag(b, num, protowire.BytesType), c06Junk(r, r.Intn(40)))
			case 2:
				b = protowire.AppendFixed64(protowire.AppendTag(b, num, protowire.Fixed64Type), r.Uint64())
			default:
				b = protowire.AppendTag(b, num, protowire.StartGroupType)
			}
		}
		in.Raw = b
	case 2: // a valid message of another type
		in.Raw = c06ValidMsg(r, r.Intn(7))
	case 3: // a length that runs past the end
		in.Raw = append(protowire.AppendTag(nil, protowire.Number(1+r.Intn(5)), protowire.BytesType), 0xff, 0xff, 0xff, 0xff, 0x0f)
	default:
		in.Msg = 6
		in.Raw = c06DeepHeader([]int{50, 5000, 12000}[r.Intn(3)])
	}
	return in
}

var c06Underlays = []string{"", "null", "{}", "[]", "0", `"x"`, `{"ID":"x"}`, `{"ID":"","Addrs":[]}`, `{"Addrs":["/ip4/127.0.0.1/tcp/1"]}`,
	`{"ID":"16Uiu2HAmJPDtMrPpsCkAKQzQJSdmbVVUN5dCvWyfPjXuTWQhqUKb","Addrs":[]}`,
	`{"ID":"16Uiu2HAmJPDtMrPpsCkAKQzQJSdmbVVUN5dCvWyfPjXuTWQhqUKb","Addrs":["/ip4/127.0.0.1/tcp/1"]}`,
	`{"ID":"16Uiu2HAmJPDtMrPpsCkAKQzQJSdmbVVUN5dCvWyfPjXuTWQhqUKb","Addrs":["garbage"]}`,
	`{"ID":"16Uiu2HAmJPDtMrPpsCkAKQzQJSdmbVVUN5dCvWyfPjXuTWQhqUKb","Addrs":[null]}`,
	`{"ID":"16Uiu2HAmJPDtMrPpsCkAKQzQJSdmbVVUN5dCvWyfPjXuTWQhqUKb","Addrs":["/ip4/999.1.1.1/tcp/1"]}`,
	`{"ID":"16Uiu2HAmJPDtMrPpsCkAKQzQJSdmbVVUN5dCvWyfPjXuTWQhqUKb","Addrs":["/dns4//tcp/0"]}`,
	`{"ID":"16Uiu2HAmJPDtMrPpsCkAKQzQJSdmbVVUN5dCvWyfPjXuTWQhqUKb","Addrs":["/ip4/127.0.0.1/udp/1/quic-v1"]}`,
	`{"ID":"QmYyQSo1c1Ym7orWxLYvCrM2EmxFTANf8wXmmE7DWjhx5N","Addrs":["/ip4/127.0.0.1/tcp/1"]}`,
	`{"ID":123,"Addrs":7}`, `{"ID":{"a":1}}`, "\xff\xfe", `{"ID":"16Uiu2HAm`}

func TestVerifC06(t *testing.T) {
	if os.Getenv("VERIF_C06_CHILD_IN") != "" {
		c06Child(t)
		return
	}
	e := vfOpen(t, 200)
	defer e.Close()
	defer func() {
		if c06Shared != nil {
			_ = c06Shared.Close()
		}
		if c06RaceBin != "" && c06RaceBin != "-" {
			os.Remove(c06RaceBin)
		}
	}()
	emit := func(class string, in c06In, obs c06Obs, inp string) {
		o := "OPanic"
		if !obs.Panic {
			o = coqApp("ONoPanic", coqN(uint64(obs.Res)))
		}
		e.Emit(class, in, obs, func(id int) string { return coqRecord("id", coqN(uint64(id)), "inp", inp, "obs", o) })
	}
	type pending struct {
		class string
		in    c06In
	}
	var children []pending
	run := func(class string, in c06In) {
		if strings.HasPrefix(in.Entry, "e2e-") {
			if in.Entry == "e2e-stress" && in.Race {
				if in.DurMs > 0 && in.DurMs <= 120000 && in.Hammers >= 0 && in.Hammers <= 16 && in.Streamers >= 0 && in.Streamers <= 16 {
					if obs, ok := c06RunRace(t, in, e.Slow); ok {
						emit(class, in, obs, c06CoqE2E(in))
					}
				}
			} else if in.Entry == "e2e-stress" {
				if in.DurMs > 0 && in.DurMs <= 120000 && in.Hammers >= 0 && in.Hammers <= 16 && in.Streamers >= 0 && in.Streamers <= 16 {
					children = append(children, pending{class, in})
				}
			} else if c06ValidClass(in.Cls) && (in.Cls != "E2NonSecpIdentity" || in.IDKey != "") &&
				(in.IDKey == "" || in.IDKey == "ed25519" || in.IDKey == "rsa" || in.IDKey == "ecdsa") {
				children = append(children, pending{class, in})
			}
			return
		}
		if in.Entry == "block-stress" || in.Entry == "match-stress" {
			if in.DurMs <= 0 || in.DurMs > 120000 {
				return
			}
			if !in.Race {
				children = append(children, pending{class, in})
			} else if obs, ok := c06RunRace(t, in, e.Slow); ok {
				emit(class, in, obs, c06CoqE2E(in))
			}
			return
		}
		if in.Entry == "unmarshal" {
			emit(class, in, c06RunLocal(in), c06LocalInp(in))
			return
		}
		children = append(children, pending{class, in}) // a goroutine that is not the driver's reads / dials
	}
	coqInp := func(in c06In) string {
		if strings.HasPrefix(in.Entry, "e2e-") || in.Entry == "block-stress" || in.Entry == "match-stress" {
			return c06CoqE2E(in)
		}
		return c06LocalInp(in)
	}
	flush := func() {
		ins := make([]c06In, len(children))
		for i, p := range children {
			ins[i] = p.in
		}
		for i, obs := range c06RunInChildren(t, ins, e.Slow) {
			emit(children[i].class, children[i].in, obs, coqInp(children[i].in))
		}
		children = nil
	}
	for _, raw := range e.Replay {
		var in c06In
		if err := json.Unmarshal(raw, &in); err != nil || in.Pkg != c06Pkg {
			continue
		}
		run("replay", in)
	}
	flush()
	if e.OnlyReplay() {
		return
	}
	r := e.rng
	for i := 0; i < 4*e.N; i++ {
		in := c06GenFrame(r, "read-msg")
		run("frame-"+in.FC, in)
		in = c06GenFrame(r, "read-header")
		run("header-"+in.FC, in)
	}
	// length prefixes around 64 KiB, 1 MiB and the 8 MiB limit, with and without the announced payload
	for _, n := range []int{65535, 65536, 65537, 1 << 20, 8 << 20, 8<<20 + 1} {
		var pre [4]byte
		binary.BigEndian.PutUint32(pre[:], uint32(n))
		for _, entry := range []string{"read-msg", "read-header"} {
			run("frame-boundary-prefix-only", c06In{Pkg: c06Pkg, Entry: entry, FC: "FTruncated", Raw: append(pre[:], c06Junk(r, 10)...)})
			run("frame-boundary-with-payload", c06In{Pkg: c06Pkg, Entry: entry, FC: "FRandom", Raw: pre[:], Fill: []byte{0x41}, FillN: n})
			// the same size as a well-formed envelope / header whose single field fills the frame
			k := n - 1 - protowire.SizeVarint(uint64(n))
			for 1+protowire.SizeVarint(uint64(k))+k > n {
				k--
			}
			body := protowire.AppendVarint(protowire.AppendTag(nil, 1, protowire.BytesType), uint64(k))
			var pre2 [4]byte
			binary.BigEndian.PutUint32(pre2[:], uint32(len(body)+k))
			run("frame-boundary-envelope", c06In{Pkg: c06Pkg, Entry: entry, FC: "FRandom", Raw: append(pre2[:], body...), Fill: []byte{0x41}, FillN: k})
		}
	}
	for i := 0; i < 6*e.N; i++ {
		run("unmarshal", c06GenUnmarshal(r))
	}
	for _, u := range c06Underlays {
		run("underlay", c06In{Pkg: c06Pkg, Entry: "connect-underlay", Raw: []byte(u)})
	}
	run("underlay", c06In{Pkg: c06Pkg, Entry: "connect-underlay", Raw: []byte(`{"ID":"`), Fill: []byte("A"), FillN: 1 << 20})
	for i := 0; i < e.N/4; i++ {
		run("underlay-random", c06In{Pkg: c06Pkg, Entry: "connect-underlay", Raw: c06Junk(r, r.Intn(120))})
	}
	// end to end: every class once without a registry in the quick tier, inbound; the outbound
	// direction and the with-registry variant on a subset; variants multiply in the thorough tier
	full := e.Tier == "thorough"
	rounds := 1
	if full {
		rounds = 1 + e.N/500
	}
	for k := 0; k < rounds; k++ {
		for ci, cls := range c06Classes {
			if cls == "E2NonSecpIdentity" {
				continue // below, per key type
			}
			run("e2e-inbound-"+cls, c06In{Pkg: c06Pkg, Entry: "e2e-inbound", Cls: cls, Variant: k + ci, Seed: r.Int63()})
			if full || ci%3 == 1 || cls == "E2UnknownRole" {
				run("e2e-outbound-"+cls, c06In{Pkg: c06Pkg, Entry: "e2e-outbound", Cls: cls, Variant: k, Seed: r.Int63()})
			}
			if full || ci == 2 {
				run("e2e-inbound-"+cls, c06In{Pkg: c06Pkg, Entry: "e2e-inbound", Registry: true, Cls: cls, Variant: k + ci, Seed: r.Int63()})
			}
		}
	}
	// remotes whose transport identity is not a secp256k1 key: (a) a correctly signed request, (b) garbage;
	// inbound, and outbound both through a gossiped underlay (even variant) and a direct Connect (odd)
	for k := 0; k < rounds; k++ {
		for ki, idKey := range []string{"ed25519", "rsa", "ecdsa"} {
			mk := func(entry, cls string, variant int, reg bool) c06In {
				return c06In{Pkg: c06Pkg, Entry: entry, Cls: cls, Variant: variant, Seed: r.Int63(), IDKey: idKey, Registry: reg}
			}
			// with a registry, so that a crash is not keyed as the missing-counters defect
			run("e2e-inbound-identity-"+idKey, mk("e2e-inbound", "E2NonSecpIdentity", k, true))
			if full || ki == 0 {
				run("e2e-inbound-identity-"+idKey+"-garbage", mk("e2e-inbound", "E2Garbage", k+ki, true))
			}
			if full || ki < 2 {
				run("e2e-outbound-identity-"+idKey, mk("e2e-outbound", "E2NonSecpIdentity", k+ki, true))
			}
			if full {
				run("e2e-outbound-identity-"+idKey, mk("e2e-outbound", "E2NonSecpIdentity", k+ki+1, false))
				run("e2e-outbound-identity-"+idKey+"-garbage", mk("e2e-outbound", "E2Garbage", k+ki, true))
				run("e2e-inbound-identity-"+idKey, mk("e2e-inbound", "E2NonSecpIdentity", k, false))
			}
		}
	}
	// stress: concurrent hostile hosts against one Service (once in the quick tier, with a registry, so
	// that a crash is not confused with the missing-counters defect that the classes above cover)
	stress := 1
	dur := 2500
	if full {
		stress, dur = 4, 8000
	}
	for k := 0; k < stress; k++ {
		run("e2e-stress", c06In{Pkg: c06Pkg, Entry: "e2e-stress", Registry: k%2 == 0, Seed: r.Int63(), DurMs: dur, Hammers: 3, Streamers: 3})
	}
	// concurrent use of the block list and of the protocol matcher
	cdur := 1200
	if full {
		cdur = 5000
	}
	run("block-stress", c06In{Pkg: c06Pkg, Entry: "block-stress", Seed: r.Int63(), DurMs: cdur})
	run("match-stress", c06In{Pkg: c06Pkg, Entry: "match-stress", Seed: r.Int63(), DurMs: cdur})
	flush()
	if full {
		run("block-stress-race", c06In{Pkg: c06Pkg, Entry: "block-stress", Seed: r.Int63(), DurMs: 3000, Race: true})
		run("match-stress-race", c06In{Pkg: c06Pkg, Entry: "match-stress", Seed: r.Int63(), DurMs: 3000, Race: true})
	}
	if full { // the same workload once under the race detector: a report in repository code counts as a crash
		run("e2e-stress-race", c06In{Pkg: c06Pkg, Entry: "e2e-stress", Registry: true, Seed: r.Int63(), DurMs: 5000, Hammers: 3, Streamers: 3, Race: true})
	}
}
