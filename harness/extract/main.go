// extract: reads Go sources of the repository under test and prints, as JSON, the constants,
// literals and call arguments the Coq development depends on (see DESIGN.md section 3.1).
// Standard library only.  usage: extract <repo-root> <file.go>...
package main

import (
	"encoding/json"
	"fmt"
	"go/ast"
	"go/constant"
	"go/parser"
	"go/printer"
	"go/token"
	"os"
	"path/filepath"
	"strings"
)

type Val struct {
	Kind  string `json:"kind"` // "int" | "string" | "" (not constant)
	Value string `json:"value"`
}

type Call struct {
	Callee  string   `json:"callee"`
	Args    []string `json:"args"`
	ArgVals []Val    `json:"argvals"`
}

type Assign struct {
	Lhs string `json:"lhs"`
	Rhs string `json:"rhs"`
}

type Func struct {
	Assigns []Assign `json:"assigns"`
	Strings []string `json:"strings"`
	Ints    []string `json:"ints"`
	Calls   []Call   `json:"calls"`
	Src     string   `json:"src"`
	Defers  []string `json:"defers"`
	Params  []string `json:"params"`
	Stmts   []string `json:"stmts"`
}

type File struct {
	Consts  map[string]Val      `json:"consts"`
	Funcs   map[string]*Func    `json:"funcs"`
	Structs map[string][]string `json:"structs"`
	// composite literals of function bodies and package-level variable initialisers (composite.go)
	Composites []Composite `json:"composites"`
}

var timeUnits = map[string]int64{
	"Nanosecond": 1, "Microsecond": 1e3, "Millisecond": 1e6, "Second": 1e9, "Minute": 60e9, "Hour": 3600e9,
}

type evaluator struct{ consts map[string]constant.Value }

func (ev *evaluator) eval(e ast.Expr) constant.Value {
	switch x := e.(type) {
	case *ast.BasicLit:
		return constant.MakeFromLiteral(x.Value, x.Kind, 0)
	case *ast.ParenExpr:
		return ev.eval(x.X)
	case *ast.Ident:
		if v, ok := ev.consts[x.Name]; ok {
			return v
		}
	case *ast.SelectorExpr:
		if id, ok := x.X.(*ast.Ident); ok && id.Name == "time" {
			if u, ok := timeUnits[x.Sel.Name]; ok {
				return constant.MakeInt64(u)
			}
		}
	case *ast.UnaryExpr:
		v := ev.eval(x.X)
		if v != nil && v.Kind() == constant.Int {
			return constant.UnaryOp(x.Op, v, 0)
		}
	case *ast.BinaryExpr:
		a, b := ev.eval(x.X), ev.eval(x.Y)
		if a != nil && b != nil && a.Kind() == b.Kind() {
			switch x.Op {
			case token.ADD, token.SUB, token.MUL:
				return constant.BinaryOp(a, x.Op, b)
			case token.QUO:
				if a.Kind() == constant.Int {
					return constant.BinaryOp(a, token.QUO_ASSIGN, b)
				}
			case token.SHL:
				if s, ok := constant.Uint64Val(b); ok {
					return constant.Shift(a, token.SHL, uint(s))
				}
			}
		}
	case *ast.CallExpr:
		// conversions such as time.Duration(5) or int64(3)
		if len(x.Args) == 1 {
			switch f := x.Fun.(type) {
			case *ast.Ident:
				switch f.Name {
				case "int", "int64", "uint64", "uint", "int32", "uint32":
					return ev.eval(x.Args[0])
				}
			case *ast.SelectorExpr:
				if id, ok := f.X.(*ast.Ident); ok && id.Name == "time" && f.Sel.Name == "Duration" {
					return ev.eval(x.Args[0])
				}
			}
		}
	}
	return nil
}

func toVal(v constant.Value) Val {
	if v == nil {
		return Val{}
	}
	switch v.Kind() {
	case constant.Int:
		return Val{"int", v.ExactString()}
	case constant.String:
		return Val{"string", constant.StringVal(v)}
	}
	return Val{}
}

func src(fset *token.FileSet, n ast.Node) string {
	var sb strings.Builder
	printer.Fprint(&sb, fset, n)
	return sb.String()
}

func funcName(d *ast.FuncDecl) string {
	if d.Recv != nil && len(d.Recv.List) == 1 {
		t := d.Recv.List[0].Type
		if s, ok := t.(*ast.StarExpr); ok {
			t = s.X
		}
		if id, ok := t.(*ast.Ident); ok {
			return id.Name + "." + d.Name.Name
		}
	}
	return d.Name.Name
}

func main() {
	if len(os.Args) == 4 && os.Args[1] == "-gallina" {
		gallinaMain(os.Args[2], os.Args[3])
		return
	}
	if len(os.Args) < 3 {
		fmt.Fprintln(os.Stderr, "usage: extract <repo-root> <file.go>...")
		os.Exit(2)
	}
	root := os.Args[1]
	out := map[string]*File{}
	for _, rel := range os.Args[2:] {
		fset := token.NewFileSet()
		f, err := parser.ParseFile(fset, filepath.Join(root, rel), nil, parser.SkipObjectResolution)
		if err != nil {
			fmt.Fprintf(os.Stderr, "extract: %v\n", err)
			out[rel] = nil
			continue
		}
		ev := &evaluator{consts: map[string]constant.Value{}}
		file := &File{Consts: map[string]Val{}, Funcs: map[string]*Func{}, Structs: map[string][]string{}}
		for _, d := range f.Decls {
			gd, ok := d.(*ast.GenDecl)
			if !ok || gd.Tok != token.TYPE {
				continue
			}
			for _, sp := range gd.Specs {
				ts := sp.(*ast.TypeSpec)
				st, ok := ts.Type.(*ast.StructType)
				if !ok {
					continue
				}
				fields := []string{}
				for _, fl := range st.Fields.List {
					t := src(fset, fl.Type)
					if len(fl.Names) == 0 {
						fields = append(fields, t)
					}
					for _, nm := range fl.Names {
						fields = append(fields, nm.Name+" "+t)
					}
				}
				file.Structs[ts.Name.Name] = fields
			}
		}
		for _, d := range f.Decls {
			gd, ok := d.(*ast.GenDecl)
			if !ok || (gd.Tok != token.CONST && gd.Tok != token.VAR) {
				continue
			}
			for _, sp := range gd.Specs {
				vs := sp.(*ast.ValueSpec)
				for i, name := range vs.Names {
					if i < len(vs.Values) {
						if v := ev.eval(vs.Values[i]); v != nil {
							if gd.Tok == token.CONST {
								ev.consts[name.Name] = v
							}
							file.Consts[name.Name] = toVal(v)
						}
					}
				}
			}
		}
		for _, d := range f.Decls {
			fd, ok := d.(*ast.FuncDecl)
			if !ok || fd.Body == nil {
				continue
			}
			fn := &Func{Strings: []string{}, Ints: []string{}, Calls: []Call{}, Assigns: []Assign{}}
			fn.Src = src(fset, fd)
			fn.Defers = []string{}
			fn.Params = []string{}
			for _, fl := range fd.Type.Params.List {
				t := src(fset, fl.Type)
				if len(fl.Names) == 0 {
					fn.Params = append(fn.Params, t)
				}
				for _, nm := range fl.Names {
					fn.Params = append(fn.Params, nm.Name+" "+t)
				}
			}
			fn.Stmts = []string{}
			for _, st := range fd.Body.List {
				fn.Stmts = append(fn.Stmts, src(fset, st))
			}
			// function-local constants
			local := &evaluator{consts: map[string]constant.Value{}}
			for k, v := range ev.consts {
				local.consts[k] = v
			}
			ast.Inspect(fd.Body, func(n ast.Node) bool {
				switch x := n.(type) {
				case *ast.AssignStmt:
					if len(x.Lhs) == len(x.Rhs) {
						for i := range x.Lhs {
							fn.Assigns = append(fn.Assigns, Assign{src(fset, x.Lhs[i]), src(fset, x.Rhs[i])})
						}
					}
				case *ast.DeferStmt:
					fn.Defers = append(fn.Defers, src(fset, x.Call))
				case *ast.IncDecStmt:
					fn.Assigns = append(fn.Assigns, Assign{src(fset, x.X), x.Tok.String()})
				case *ast.GenDecl:
					if x.Tok == token.VAR {
						for _, sp := range x.Specs {
							vs := sp.(*ast.ValueSpec)
							if len(vs.Names) == len(vs.Values) {
								for i, name := range vs.Names {
									fn.Assigns = append(fn.Assigns, Assign{name.Name, src(fset, vs.Values[i])})
								}
							}
						}
					}
					if x.Tok == token.CONST {
						for _, sp := range x.Specs {
							vs := sp.(*ast.ValueSpec)
							for i, name := range vs.Names {
								if i < len(vs.Values) {
									if v := local.eval(vs.Values[i]); v != nil {
										local.consts[name.Name] = v
									}
								}
							}
						}
					}
				case *ast.BasicLit:
					switch x.Kind {
					case token.STRING:
						fn.Strings = append(fn.Strings, constant.StringVal(constant.MakeFromLiteral(x.Value, x.Kind, 0)))
					case token.INT:
						fn.Ints = append(fn.Ints, constant.MakeFromLiteral(x.Value, x.Kind, 0).ExactString())
					}
				case *ast.CallExpr:
					c := Call{Callee: src(fset, x.Fun), Args: []string{}, ArgVals: []Val{}}
					for _, a := range x.Args {
						c.Args = append(c.Args, src(fset, a))
						c.ArgVals = append(c.ArgVals, toVal(local.eval(a)))
					}
					fn.Calls = append(fn.Calls, c)
				}
				return true
			})
			file.Funcs[funcName(fd)] = fn
		}
		file.Composites = collectComposites(fset, f)
		out[rel] = file
	}
	enc := json.NewEncoder(os.Stdout)
	enc.SetIndent("", " ")
	enc.Encode(out)
}
