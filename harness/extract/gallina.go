// gallina: translator of small pure Go kernels into Gallina (anchor kind func_gallina).
//
//	usage: extract -gallina <specs.json> <repo-root>
//
// specs.json is a list of anchor entries
//
//	{"name": "...", "file": "pkg/x/y.go", "func": "Recv.Name" | "Name",
//	 "from": "<prefix of a statement>", "to": "<prefix of a statement>",   (optional: a statement range)
//	 "params": [{"go": "<source text of a Go expression>", "name": "<coq name>", "type": "Z|bytes|bool"}],
//	 "results": ["<go variable>", ...],                                    (ranges: the values read off at the end)
//	 "int_types": ["PeerType"],                                            (named integer types read as Z)
//	 "effects": [{"callee": "s.blockPeer", "var": "block", "args": [1]}]}   (a call recorded as option value)
//
// and the output is {"<name>": {"type": "...", "term": "...", "comment": "...", "err": "..."}}.
// Anything outside the fragment is refused (err set, no term): the Coq files that use the definition
// then fail to build, which is the alarm.
//
// The accepted fragment and its reading (this is part of the trusted base, DESIGN.md section 0):
//
//	values      *big.Int, integer constants, time.Duration constants and the named integer types of
//	            int_types are Z; string is bytes (list N, the UTF-8 bytes); conditions are bool.
//	            big.Int values are read as immutable mathematical integers: a function or range that
//	            contains both an in-place statement x.Op(a, b) and a copy y = x between big.Int
//	            variables is refused (two names for one object); the arguments of a range are taken
//	            to be distinct objects.
//	expressions integer / string literals; constants of the same file (iota and implicit repetition
//	            included); time.Nanosecond..time.Hour; + - * between CONSTANT integer expressions only
//	            (exact in Go, no wrap-around); unary minus on constants; big.NewInt(k);
//	            new(big.Int).Add/Sub/Mul(a, b) -> a + b, a - b, a * b;  new(big.Int).Set(a) -> a;
//	            new(big.Int).Div/Mod(a, big.NewInt(k)) with a literal k > 0 only -> Z.div / Z.modulo
//	            (Euclidean = floor for a positive divisor); Quo/Rem -> Z.quot / Z.rem;
//	            Neg/Abs -> Z.opp / Z.abs;  x.Cmp(y) OP 0 and x.Sign() OP 0 -> the comparison on Z;
//	            == != < <= > >= on integers -> Z.eqb ... ; == != on strings -> bytes_eqb; && || !;
//	            T(e) for T = time.Duration or an int_types name applied to a constant;
//	            any expression whose source text equals the "go" of a params entry -> that argument.
//	statements  x = e, x := e (one variable); the in-place forms x.Add(a, b) etc. as statements
//	            (read as x = a + b); if / else if / else without init; switch with or without tag,
//	            without init and without fallthrough (first matching clause, default last);
//	            return e (one or more results -> tuple); a call listed in "effects" (read as
//	            var = Some args; the variable starts as None).
//	            Everything else (loops, defer, go, other calls, pointers, indexing, ...) is refused.
package main

import (
	"encoding/json"
	"fmt"
	"go/ast"
	"go/constant"
	"go/parser"
	"go/token"
	"os"
	"path/filepath"
	"sort"
	"strings"
)

type gParam struct {
	Go   string `json:"go"`
	Name string `json:"name"`
	Type string `json:"type"`
}

type gEffect struct {
	Callee string `json:"callee"`
	Var    string `json:"var"`
	Args   []int  `json:"args"`
}

type gSpec struct {
	Name     string    `json:"name"`
	File     string    `json:"file"`
	Func     string    `json:"func"`
	From     string    `json:"from"`
	To       string    `json:"to"`
	Params   []gParam  `json:"params"`
	Results  []string  `json:"results"`
	IntTypes []string  `json:"int_types"`
	Effects  []gEffect `json:"effects"`
}

type gOut struct {
	Type    string `json:"type"`
	Term    string `json:"term"`
	Comment string `json:"comment"`
	Err     string `json:"err"`
}

type refuse struct{ msg string }

func refusef(format string, a ...interface{}) { panic(refuse{fmt.Sprintf(format, a...)}) }

// ---------------------------------------------------------------------------------------------
// constants of the file, with iota and implicit repetition
// ---------------------------------------------------------------------------------------------

func fileConsts(f *ast.File) map[string]constant.Value {
	consts := map[string]constant.Value{}
	for _, d := range f.Decls {
		gd, ok := d.(*ast.GenDecl)
		if !ok || gd.Tok != token.CONST {
			continue
		}
		var last []ast.Expr
		for i, sp := range gd.Specs {
			vs := sp.(*ast.ValueSpec)
			vals := vs.Values
			if len(vals) == 0 {
				vals = last
			} else {
				last = vals
			}
			ev := &evaluator{consts: map[string]constant.Value{}}
			for k, v := range consts {
				ev.consts[k] = v
			}
			ev.consts["iota"] = constant.MakeInt64(int64(i))
			for j, name := range vs.Names {
				if j < len(vals) {
					if v := ev.eval(vals[j]); v != nil {
						consts[name.Name] = v
					}
				}
			}
		}
	}
	return consts
}

// ---------------------------------------------------------------------------------------------
// translation
// ---------------------------------------------------------------------------------------------

type gval struct {
	term  string
	typ   string // "Z" | "bytes" | "bool" | "option ..." | tuple types
	konst bool   // compile-time constant integer expression
}

type tr struct {
	fset     *token.FileSet
	spec     *gSpec
	consts   map[string]constant.Value
	params   map[string]gParam // by collapsed Go source text
	vars     map[string]string // go variable -> type
	intTypes map[string]bool
	effects  map[string]gEffect
	strs     []string
	copies   []string // x = y between two *big.Int variables (two names for one object)
	inplace  []string // x.Add(a, b) as a statement (changes the object x names)
}

func zlit(s string) string { return "(" + s + ")%Z" }

func coqName(goName string) string { return "v_" + goName }

func (t *tr) srcOf(n ast.Node) string { return collapse(src(t.fset, n)) }

func (t *tr) isBigNew(e ast.Expr) bool { return t.srcOf(e) == "new(big.Int)" }

func (t *tr) positiveLiteral(e ast.Expr) (string, bool) {
	c, ok := e.(*ast.CallExpr)
	if !ok || t.srcOf(c.Fun) != "big.NewInt" || len(c.Args) != 1 {
		return "", false
	}
	ev := &evaluator{consts: t.consts}
	v := ev.eval(c.Args[0])
	if v == nil || v.Kind() != constant.Int || constant.Sign(v) <= 0 {
		return "", false
	}
	return v.ExactString(), true
}

func (t *tr) bigOp(op string, args []ast.Expr) gval {
	need := func(n int) {
		if len(args) != n {
			refusef("big.Int.%s with %d arguments", op, len(args))
		}
	}
	z := func(e ast.Expr) string {
		v := t.expr(e)
		if v.typ != "Z" {
			refusef("big.Int.%s on a %s value: %s", op, v.typ, t.srcOf(e))
		}
		return v.term
	}
	switch op {
	case "Add", "Sub", "Mul":
		need(2)
		sym := map[string]string{"Add": "+", "Sub": "-", "Mul": "*"}[op]
		return gval{"(" + z(args[0]) + " " + sym + " " + z(args[1]) + ")%Z", "Z", false}
	case "Div", "Mod":
		need(2)
		k, ok := t.positiveLiteral(args[1])
		if !ok {
			refusef("big.Int.%s by something that is not big.NewInt(positive literal): %s", op, t.srcOf(args[1]))
		}
		fn := map[string]string{"Div": "Z.div", "Mod": "Z.modulo"}[op]
		return gval{"(" + fn + " " + z(args[0]) + " " + zlit(k) + ")", "Z", false}
	case "Quo", "Rem":
		need(2)
		fn := map[string]string{"Quo": "Z.quot", "Rem": "Z.rem"}[op]
		return gval{"(" + fn + " " + z(args[0]) + " " + z(args[1]) + ")", "Z", false}
	case "Neg", "Abs":
		need(1)
		fn := map[string]string{"Neg": "Z.opp", "Abs": "Z.abs"}[op]
		return gval{"(" + fn + " " + z(args[0]) + ")", "Z", false}
	case "Set":
		need(1)
		return gval{z(args[0]), "Z", false}
	}
	refusef("big.Int method %s", op)
	return gval{}
}

var cmpFns = map[token.Token]string{token.EQL: "Z.eqb", token.LSS: "Z.ltb", token.LEQ: "Z.leb"}

func (t *tr) compareZ(op token.Token, a, b string) gval {
	if op == token.NEQ {
		return gval{"(negb (Z.eqb " + a + " " + b + "))", "bool", false}
	}
	// a > b is read as b < a, a >= b as b <= a
	if op == token.GTR {
		op, a, b = token.LSS, b, a
	} else if op == token.GEQ {
		op, a, b = token.LEQ, b, a
	}
	fn, ok := cmpFns[op]
	if !ok {
		refusef("operator %s on integers", op)
	}
	return gval{"(" + fn + " " + a + " " + b + ")", "bool", false}
}

func (t *tr) expr(e ast.Expr) gval {
	if p, ok := t.params[t.srcOf(e)]; ok {
		return gval{p.Name, p.Type, false}
	}
	switch x := e.(type) {
	case *ast.ParenExpr:
		return t.expr(x.X)
	case *ast.BasicLit:
		switch x.Kind {
		case token.INT:
			return gval{zlit(constant.MakeFromLiteral(x.Value, x.Kind, 0).ExactString()), "Z", true}
		case token.STRING:
			s := constant.StringVal(constant.MakeFromLiteral(x.Value, x.Kind, 0))
			t.strs = append(t.strs, s)
			return gval{fmt.Sprintf("(x \"%x\")", []byte(s)), "bytes", false}
		}
		refusef("literal %s", x.Value)
	case *ast.Ident:
		if x.Name == "true" || x.Name == "false" {
			return gval{x.Name, "bool", false}
		}
		if ty, ok := t.vars[x.Name]; ok {
			return gval{coqName(x.Name), ty, false}
		}
		if v, ok := t.consts[x.Name]; ok {
			switch v.Kind() {
			case constant.Int:
				return gval{zlit(v.ExactString()), "Z", true}
			case constant.String:
				s := constant.StringVal(v)
				t.strs = append(t.strs, s)
				return gval{fmt.Sprintf("(x \"%x\")", []byte(s)), "bytes", false}
			}
		}
		refusef("identifier %s is neither an argument, a local variable nor a constant of the file", x.Name)
	case *ast.SelectorExpr:
		if id, ok := x.X.(*ast.Ident); ok && id.Name == "time" {
			if u, ok := timeUnits[x.Sel.Name]; ok {
				return gval{zlit(fmt.Sprint(u)), "Z", true}
			}
		}
		refusef("selector %s", t.srcOf(x))
	case *ast.UnaryExpr:
		v := t.expr(x.X)
		switch {
		case x.Op == token.SUB && v.typ == "Z" && v.konst:
			return gval{"(Z.opp " + v.term + ")", "Z", true}
		case x.Op == token.NOT && v.typ == "bool":
			return gval{"(negb " + v.term + ")", "bool", false}
		}
		refusef("unary %s on %s", x.Op, t.srcOf(x.X))
	case *ast.BinaryExpr:
		// x.Cmp(y) OP 0 and x.Sign() OP 0
		if c, ok := x.X.(*ast.CallExpr); ok {
			if sel, ok := c.Fun.(*ast.SelectorExpr); ok && (sel.Sel.Name == "Cmp" || sel.Sel.Name == "Sign") {
				if _, isParam := t.params[t.srcOf(c)]; !isParam {
					if lit, ok := x.Y.(*ast.BasicLit); !ok || lit.Value != "0" {
						refusef("%s compared with something that is not the literal 0", t.srcOf(c))
					}
					a := t.expr(sel.X)
					if a.typ != "Z" {
						refusef("%s on a %s value", sel.Sel.Name, a.typ)
					}
					if sel.Sel.Name == "Sign" {
						if len(c.Args) != 0 {
							refusef("Sign with arguments")
						}
						return t.compareZ(x.Op, a.term, zlit("0"))
					}
					if len(c.Args) != 1 {
						refusef("Cmp with %d arguments", len(c.Args))
					}
					b := t.expr(c.Args[0])
					if b.typ != "Z" {
						refusef("Cmp with a %s value", b.typ)
					}
					return t.compareZ(x.Op, a.term, b.term)
				}
			}
		}
		a, b := t.expr(x.X), t.expr(x.Y)
		switch x.Op {
		case token.LAND, token.LOR:
			if a.typ == "bool" && b.typ == "bool" {
				fn := map[token.Token]string{token.LAND: "andb", token.LOR: "orb"}[x.Op]
				return gval{"(" + fn + " " + a.term + " " + b.term + ")", "bool", false}
			}
		case token.ADD, token.SUB, token.MUL:
			if a.typ == "Z" && b.typ == "Z" {
				if !a.konst || !b.konst {
					refusef("machine-integer arithmetic on non-constant operands: %s", t.srcOf(x))
				}
				return gval{"(" + a.term + " " + x.Op.String() + " " + b.term + ")%Z", "Z", true}
			}
		case token.EQL, token.NEQ, token.LSS, token.LEQ, token.GTR, token.GEQ:
			if a.typ == "Z" && b.typ == "Z" {
				return t.compareZ(x.Op, a.term, b.term)
			}
			if a.typ == "bytes" && b.typ == "bytes" && (x.Op == token.EQL || x.Op == token.NEQ) {
				r := "(bytes_eqb " + a.term + " " + b.term + ")"
				if x.Op == token.NEQ {
					r = "(negb " + r + ")"
				}
				return gval{r, "bool", false}
			}
		}
		refusef("operator %s on %s and %s: %s", x.Op, a.typ, b.typ, t.srcOf(x))
	case *ast.CallExpr:
		fun := t.srcOf(x.Fun)
		if fun == "big.NewInt" && len(x.Args) == 1 {
			v := t.expr(x.Args[0])
			if v.typ != "Z" || !v.konst {
				refusef("big.NewInt of a non-constant: %s", t.srcOf(x))
			}
			return gval{v.term, "Z", false}
		}
		if (fun == "time.Duration" || t.intTypes[fun]) && len(x.Args) == 1 {
			v := t.expr(x.Args[0])
			if v.typ != "Z" || !v.konst {
				refusef("conversion of a non-constant: %s", t.srcOf(x))
			}
			return v
		}
		if sel, ok := x.Fun.(*ast.SelectorExpr); ok && t.isBigNew(sel.X) {
			return t.bigOp(sel.Sel.Name, x.Args)
		}
		refusef("call %s", t.srcOf(x))
	}
	refusef("expression %s", t.srcOf(e))
	return gval{}
}

// intermediate form ---------------------------------------------------------------------------

type node interface{}
type nAssign struct {
	v    string
	e    gval
}
type nIf struct {
	cond      string
	then, els []node
}
type nReturn struct{ e gval }

func (t *tr) block(stmts []ast.Stmt) []node {
	out := []node{}
	for _, s := range stmts {
		out = append(out, t.stmt(s)...)
	}
	return out
}

func (t *tr) assign(name string, v gval) node {
	if old, ok := t.vars[name]; ok && old != v.typ {
		refusef("variable %s changes its type from %s to %s", name, old, v.typ)
	}
	if _, clash := t.consts[name]; clash {
		refusef("variable %s shadows a constant", name)
	}
	t.vars[name] = v.typ
	return nAssign{name, v}
}

func (t *tr) cond(e ast.Expr) string {
	c := t.expr(e)
	if c.typ != "bool" {
		refusef("condition of type %s: %s", c.typ, t.srcOf(e))
	}
	return c.term
}

func (t *tr) stmt(s ast.Stmt) []node {
	switch x := s.(type) {
	case *ast.EmptyStmt:
		return nil
	case *ast.BlockStmt:
		return t.block(x.List)
	case *ast.AssignStmt:
		if len(x.Lhs) != 1 || len(x.Rhs) != 1 || (x.Tok != token.ASSIGN && x.Tok != token.DEFINE) {
			refusef("assignment form: %s", t.srcOf(x))
		}
		id, ok := x.Lhs[0].(*ast.Ident)
		if !ok {
			refusef("assignment to %s", t.srcOf(x.Lhs[0]))
		}
		v := t.expr(x.Rhs[0])
		if rid, ok := x.Rhs[0].(*ast.Ident); ok && v.typ == "Z" && !v.konst {
			if _, isVar := t.vars[rid.Name]; isVar {
				t.copies = append(t.copies, t.srcOf(x))
			}
		}
		return []node{t.assign(id.Name, v)}
	case *ast.ExprStmt:
		c, ok := x.X.(*ast.CallExpr)
		if !ok {
			refusef("statement %s", t.srcOf(x))
		}
		if ef, ok := t.effects[t.srcOf(c.Fun)]; ok {
			parts := []string{}
			types := []string{}
			for _, i := range ef.Args {
				if i >= len(c.Args) {
					refusef("effect call %s has no argument %d", t.srcOf(c), i)
				}
				v := t.expr(c.Args[i])
				parts = append(parts, v.term)
				types = append(types, v.typ)
			}
			return []node{t.assign(ef.Var, gval{"(Some (" + strings.Join(parts, ", ") + "))",
				"option (" + strings.Join(types, " * ") + ")", false})}
		}
		// in-place big.Int operation on a variable: x.Add(a, b) read as x = a + b
		if sel, ok := c.Fun.(*ast.SelectorExpr); ok {
			if id, ok := sel.X.(*ast.Ident); ok && t.vars[id.Name] == "Z" {
				t.inplace = append(t.inplace, t.srcOf(x))
				return []node{t.assign(id.Name, t.bigOp(sel.Sel.Name, c.Args))}
			}
		}
		refusef("call statement %s", t.srcOf(x))
	case *ast.IfStmt:
		if x.Init != nil {
			refusef("if with init statement")
		}
		n := nIf{cond: t.cond(x.Cond)}
		n.then = t.block(x.Body.List)
		if x.Else != nil {
			n.els = t.stmt(x.Else)
		}
		return []node{n}
	case *ast.SwitchStmt:
		if x.Init != nil {
			refusef("switch with init statement")
		}
		var tag *gval
		if x.Tag != nil {
			v := t.expr(x.Tag)
			tag = &v
		}
		type clause struct {
			cond string
			body []node
		}
		var clauses []clause
		var deflt []node
		hasDefault := false
		for _, cs := range x.Body.List {
			cc := cs.(*ast.CaseClause)
			for _, b := range cc.Body {
				if br, ok := b.(*ast.BranchStmt); ok {
					refusef("%s in a switch clause", br.Tok)
				}
			}
			if cc.List == nil {
				hasDefault = true
				deflt = t.block(cc.Body)
				continue
			}
			conds := []string{}
			for _, e := range cc.List {
				if tag == nil {
					conds = append(conds, t.cond(e))
					continue
				}
				v := t.expr(e)
				switch {
				case tag.typ == "Z" && v.typ == "Z":
					conds = append(conds, "(Z.eqb "+tag.term+" "+v.term+")")
				case tag.typ == "bytes" && v.typ == "bytes":
					conds = append(conds, "(bytes_eqb "+tag.term+" "+v.term+")")
				default:
					refusef("switch on %s with a case of type %s", tag.typ, v.typ)
				}
			}
			c := conds[0]
			for _, d := range conds[1:] {
				c = "(orb " + c + " " + d + ")"
			}
			clauses = append(clauses, clause{c, t.block(cc.Body)})
		}
		// default may be written anywhere; it is taken when no clause matches
		_ = hasDefault
		rest := deflt
		for i := len(clauses) - 1; i >= 0; i-- {
			rest = []node{nIf{clauses[i].cond, clauses[i].body, rest}}
		}
		return rest
	case *ast.ReturnStmt:
		if len(x.Results) == 0 {
			refusef("return without a value")
		}
		parts, types := []string{}, []string{}
		for _, r := range x.Results {
			v := t.expr(r)
			parts = append(parts, v.term)
			types = append(types, v.typ)
		}
		if len(parts) == 1 {
			return []node{nReturn{gval{parts[0], types[0], false}}}
		}
		return []node{nReturn{gval{"(" + strings.Join(parts, ", ") + ")", "(" + strings.Join(types, " * ") + ")", false}}}
	}
	refusef("statement outside the fragment: %s", strings.SplitN(t.srcOf(s), "{", 2)[0])
	return nil
}

func hasReturn(ns []node) bool {
	for _, n := range ns {
		switch x := n.(type) {
		case nReturn:
			return true
		case nIf:
			if hasReturn(x.then) || hasReturn(x.els) {
				return true
			}
		}
	}
	return false
}

func assigned(ns []node, seen map[string]bool, order *[]string) {
	for _, n := range ns {
		switch x := n.(type) {
		case nAssign:
			if !seen[x.v] {
				seen[x.v] = true
				*order = append(*order, x.v)
			}
		case nIf:
			assigned(x.then, seen, order)
			assigned(x.els, seen, order)
		}
	}
}

type emitter struct {
	retType string
	defined map[string]bool // variables that have a value at this point (set along the way)
}

func tuple(vs []string) string {
	if len(vs) == 1 {
		return coqName(vs[0])
	}
	ns := []string{}
	for _, v := range vs {
		ns = append(ns, coqName(v))
	}
	return "(" + strings.Join(ns, ", ") + ")"
}

func ind(n int) string { return strings.Repeat("  ", n) }

// emit the term of a statement list followed by the continuation k (nil: falling off the end is refused)
func (em *emitter) emit(ns []node, k func(int) string, depth int) string {
	if len(ns) == 0 {
		if k == nil {
			refusef("a path reaches the end without return")
		}
		return k(depth)
	}
	rest := func(d int) string { return em.emit(ns[1:], k, d) }
	switch x := ns[0].(type) {
	case nReturn:
		if len(ns) > 1 {
			refusef("statements after return")
		}
		if em.retType == "" {
			em.retType = x.e.typ
		} else if em.retType != x.e.typ {
			refusef("return values of different types: %s and %s", em.retType, x.e.typ)
		}
		return x.e.term
	case nAssign:
		em.defined[x.v] = true
		return "let " + coqName(x.v) + " := " + x.e.term + " in\n" + ind(depth) + rest(depth)
	case nIf:
		if hasReturn(x.then) || hasReturn(x.els) {
			// a branch may leave the function: the rest is placed behind both branches
			save := map[string]bool{}
			for k2, v := range em.defined {
				save[k2] = v
			}
			th := em.emit(x.then, rest, depth+1)
			em.defined = save
			el := em.emit(x.els, rest, depth+1)
			return "if " + x.cond + "\n" + ind(depth) + "then " + th + "\n" + ind(depth) + "else " + el
		}
		// join: the variables assigned in a branch are rebound after the conditional
		var ws []string
		assigned([]node{x}, map[string]bool{}, &ws)
		if len(ws) == 0 {
			return rest(depth)
		}
		for _, w := range ws {
			if !em.defined[w] {
				refusef("variable %s is first assigned inside a branch", w)
			}
		}
		fin := func(int) string { return tuple(ws) }
		th := em.emit(x.then, fin, depth+1)
		el := em.emit(x.els, fin, depth+1)
		pat := coqName(ws[0])
		if len(ws) > 1 {
			pat = "'" + tuple(ws)
		}
		return "let " + pat + " := if " + x.cond + " then " + th + " else " + el + " in\n" + ind(depth) + rest(depth)
	}
	refusef("internal: unknown node")
	return ""
}

// ---------------------------------------------------------------------------------------------

func coqType(goType string, intTypes map[string]bool) string {
	switch goType {
	case "string":
		return "bytes"
	case "bool":
		return "bool"
	case "*big.Int", "time.Duration":
		return "Z"
	}
	if intTypes[goType] {
		return "Z"
	}
	return ""
}

// the statement list (at any depth of fd's body) that contains exactly one statement starting with `from`
func findRange(t *tr, body *ast.BlockStmt, from, to string) []ast.Stmt {
	var found [][]ast.Stmt
	try := func(list []ast.Stmt) {
		a, b := -1, -1
		for i, s := range list {
			txt := t.srcOf(s)
			if strings.HasPrefix(txt, from) {
				if a >= 0 {
					refusef("`from` matches more than one statement")
				}
				a = i
			}
			if strings.HasPrefix(txt, to) && a >= 0 && b < 0 {
				b = i
			}
		}
		if a >= 0 {
			if b < a {
				refusef("`to` not found after `from` in the same statement list")
			}
			found = append(found, list[a:b+1])
		}
	}
	ast.Inspect(body, func(n ast.Node) bool {
		switch x := n.(type) {
		case *ast.BlockStmt:
			try(x.List)
		case *ast.CaseClause:
			try(x.Body)
		}
		return true
	})
	if len(found) != 1 {
		refusef("`from` matches %d statement lists (exactly one wanted)", len(found))
	}
	return found[0]
}

func translate(root string, sp *gSpec) (out gOut) {
	defer func() {
		if r := recover(); r != nil {
			if rf, ok := r.(refuse); ok {
				out = gOut{Err: rf.msg}
				return
			}
			panic(r)
		}
	}()
	fset := token.NewFileSet()
	f, err := parser.ParseFile(fset, filepath.Join(root, sp.File), nil, parser.SkipObjectResolution)
	if err != nil {
		refusef("parse: %v", err)
	}
	var fd *ast.FuncDecl
	for _, d := range f.Decls {
		if x, ok := d.(*ast.FuncDecl); ok && x.Body != nil && funcName(x) == sp.Func {
			fd = x
		}
	}
	if fd == nil {
		refusef("function %s not found", sp.Func)
	}
	t := &tr{fset: fset, spec: sp, consts: fileConsts(f), params: map[string]gParam{}, vars: map[string]string{},
		intTypes: map[string]bool{}, effects: map[string]gEffect{}}
	for _, n := range sp.IntTypes {
		t.intTypes[n] = true
	}
	for _, e := range sp.Effects {
		t.effects[e.Callee] = e
	}
	binders := []string{}
	argTypes := []string{}
	addBinder := func(name, typ string) {
		binders = append(binders, "("+name+" : "+typ+")")
		argTypes = append(argTypes, typ)
	}
	whole := sp.From == ""
	em := &emitter{defined: map[string]bool{}}
	init := ""
	for _, p := range sp.Params {
		if p.Type == "" {
			p.Type = "Z"
		}
		addBinder(p.Name, p.Type)
		id := collapse(p.Go)
		if token.IsIdentifier(id) {
			// an argument that names a Go variable gives that variable its initial value
			t.vars[id] = p.Type
			init += "let " + coqName(id) + " := " + p.Name + " in\n  "
			em.defined[id] = true
		} else {
			t.params[id] = p
		}
	}
	var stmts []ast.Stmt
	if whole {
		// the receiver and the parameters of the function are the arguments, in that order
		fields := []*ast.Field{}
		if fd.Recv != nil {
			fields = append(fields, fd.Recv.List...)
		}
		fields = append(fields, fd.Type.Params.List...)
		for _, fl := range fields {
			gt := t.srcOf(fl.Type)
			ct := coqType(gt, t.intTypes)
			for _, nm := range fl.Names {
				if _, given := t.vars[nm.Name]; given {
					continue
				}
				if ct == "" {
					// a parameter of another type may only occur inside expressions named in "params"
					continue
				}
				t.vars[nm.Name] = ct
				em.defined[nm.Name] = true
				addBinder(coqName(nm.Name), ct)
			}
		}
		stmts = fd.Body.List
	} else {
		stmts = findRange(t, fd.Body, collapse(sp.From), collapse(sp.To))
	}
	prefix := ""
	effVars := []string{}
	for _, e := range sp.Effects {
		effVars = append(effVars, e.Var)
	}
	sort.Strings(effVars)
	nodes := t.block(stmts)
	for _, v := range effVars {
		ty, ok := t.vars[v]
		if !ok {
			refusef("effect call for %s does not occur", v)
		}
		prefix += "let " + coqName(v) + " : " + ty + " := None in\n  "
		em.defined[v] = true
	}
	var k func(int) string
	resType := ""
	if !whole {
		if len(sp.Results) == 0 {
			refusef("a statement range needs \"results\"")
		}
		types := []string{}
		for _, r := range sp.Results {
			ty, ok := t.vars[r]
			if !ok {
				refusef("result %s is not a variable of the range", r)
			}
			types = append(types, ty)
		}
		resType = strings.Join(types, " * ")
		k = func(int) string { return tuple(sp.Results) }
	}
	if len(t.inplace) > 0 && len(t.copies) > 0 {
		// values are read as immutable integers: that is wrong when one object has two names and is changed in place
		refusef("in-place operation %s together with the pointer copy %s", t.inplace[0], t.copies[0])
	}
	body := em.emit(nodes, k, 1)
	if whole {
		resType = em.retType
	} else if em.retType != "" {
		refusef("return inside a statement range")
	}
	if strings.Contains(resType, " * ") && !strings.HasPrefix(resType, "(") {
		resType = "(" + resType + ")"
	}
	typ := strings.Join(append(argTypes, resType), " -> ")
	term := "fun " + strings.Join(binders, " ") + " =>\n  " + init + prefix + body
	if len(binders) == 0 {
		term = init + prefix + body
	}
	comment := "translated from " + sp.File + ":" + sp.Func
	if !whole {
		comment += " statements [" + sp.From + " .. " + sp.To + "]"
	}
	if len(t.strs) > 0 {
		comment += "; string literals: " + strings.Join(t.strs, " | ")
	}
	return gOut{Type: typ, Term: term, Comment: comment}
}

func gallinaMain(specFile, root string) {
	raw, err := os.ReadFile(specFile)
	if err != nil {
		fmt.Fprintln(os.Stderr, err)
		os.Exit(2)
	}
	var specs []gSpec
	if err := json.Unmarshal(raw, &specs); err != nil {
		fmt.Fprintln(os.Stderr, err)
		os.Exit(2)
	}
	out := map[string]gOut{}
	for i := range specs {
		out[specs[i].Name] = translate(root, &specs[i])
	}
	enc := json.NewEncoder(os.Stdout)
	enc.SetIndent("", " ")
	enc.Encode(out)
}
