// composite literals (anchor kind composite_fields): for every function body and every package-level
// variable initialiser, the composite literals found in it (source order, nested ones included) with
// their keyed elements as (key source, value source).
package main

import (
	"go/ast"
	"go/token"
	"regexp"
)

type Composite struct {
	Scope  string      `json:"scope"` // "func:<Recv.Name|Name>" or "var:<name>"
	Type   string      `json:"type"`  // source text of the literal's type expression
	Keyed  bool        `json:"keyed"` // every element is a KeyValueExpr
	Fields [][2]string `json:"fields"`
}

var wsRe = regexp.MustCompile(`\s+`)

func collapse(s string) string { return wsRe.ReplaceAllString(s, " ") }

func compositesIn(fset *token.FileSet, scope string, n ast.Node, out *[]Composite) {
	if n == nil {
		return
	}
	ast.Inspect(n, func(m ast.Node) bool {
		cl, ok := m.(*ast.CompositeLit)
		if !ok || cl.Type == nil {
			return true
		}
		c := Composite{Scope: scope, Type: collapse(src(fset, cl.Type)), Keyed: true, Fields: [][2]string{}}
		for _, el := range cl.Elts {
			kv, ok := el.(*ast.KeyValueExpr)
			if !ok {
				c.Keyed = false
				continue
			}
			c.Fields = append(c.Fields, [2]string{collapse(src(fset, kv.Key)), collapse(src(fset, kv.Value))})
		}
		*out = append(*out, c)
		return true
	})
}

func collectComposites(fset *token.FileSet, f *ast.File) []Composite {
	out := []Composite{}
	for _, d := range f.Decls {
		switch x := d.(type) {
		case *ast.FuncDecl:
			if x.Body != nil {
				compositesIn(fset, "func:"+funcName(x), x.Body, &out)
			}
		case *ast.GenDecl:
			if x.Tok != token.VAR {
				continue
			}
			for _, sp := range x.Specs {
				vs := sp.(*ast.ValueSpec)
				for i, name := range vs.Names {
					if i < len(vs.Values) {
						compositesIn(fset, "var:"+name.Name, vs.Values[i], &out)
					}
				}
			}
		}
	}
	return out
}
